"""Determinism self-test.

  python -m gpsim.selftest determinism [--n 60]

Every profile's seed block is generated and executed in three separate
interpreters (PYTHONHASHSEED=0, =12345, =random); the per-seed digests of the
scenario documents and of the recorded histories must be identical.  Also
compares a 1-worker and a 16-worker run of one check's evidence counters.
"""
import argparse
import hashlib
import json
import os
import subprocess
import sys

ROOT = os.path.dirname(os.path.dirname(os.path.abspath(__file__)))


def digests(profile, lo, hi, cfg):
    from . import gen, execu, quant
    execu.gp()
    out = {}
    for seed in range(lo, hi):
        scn = gen.gen(seed, profile, cfg)
        ds = hashlib.sha256(json.dumps(scn, sort_keys=True).encode()).hexdigest()[:16]
        if profile == 'quant':
            H = quant.execute_program(scn)
        elif profile == 'conv':
            from .oracles import c04
            from . import refmodel as rm
            esi = [rm.elem_si(e) for e in scn['elements']]
            m = rm.DeclModel(esi)
            for d in scn['decls']:
                m.apply(d)
            k = rm.rate_constant(m, m.chain(0))[0]
            b, _, _ = c04.variant(scn, k, 0.2)
            H = execu.execute(b)
        else:
            H = execu.execute(scn)
        out[seed] = ds + ':' + execu.digest(H)[:16]
    return out


def main(argv=None):
    ap = argparse.ArgumentParser()
    ap.add_argument('cmd')
    ap.add_argument('--profile')
    ap.add_argument('--lo', type=int, default=0)
    ap.add_argument('--hi', type=int, default=60)
    ap.add_argument('--n', type=int, default=60)
    ap.add_argument('--cfg', default='{}')
    a = ap.parse_args(argv)
    if a.cmd == 'digests':
        print(json.dumps(digests(a.profile, a.lo, a.hi, json.loads(a.cfg))))
        return 0
    from .gen import PROFILES
    bad = 0
    total = 0
    for profile in sorted(PROFILES):
        runs = []
        for hs in ('0', '12345', 'random'):
            env = dict(os.environ)
            env['PYTHONHASHSEED'] = hs
            p = subprocess.run(
                [sys.executable, '-m', 'gpsim.selftest', 'digests', '--profile',
                 profile, '--lo', '0', '--hi', str(a.n), '--cfg',
                 json.dumps({'mixed_time_units': True})],
                cwd=ROOT, env=env, capture_output=True, text=True, timeout=900)
            if p.returncode != 0:
                print(profile, 'FAILED', p.stderr[-500:])
                bad += 1
                runs.append({})
                continue
            runs.append(json.loads(p.stdout.strip().splitlines()[-1]))
        diff = [s for s in runs[0] if not (runs[0][s] == runs[1].get(s) == runs[2].get(s))]
        total += len(runs[0])
        bad += len(diff)
        print(f'{profile:8s} seeds={len(runs[0])} mismatches={len(diff)} {diff[:3]}')
    # worker-count independence of one check's counters
    outs = []
    for jobs in ('1', '16'):
        env = dict(os.environ)
        p = subprocess.run([sys.executable, '-m', 'gpsim.check', 'C13', '--n',
                            '600', '--jobs', jobs, '--no-evidence'],
                           cwd=ROOT, env=env, capture_output=True, text=True,
                           timeout=1200)
        outs.append(p.stdout.split(',')[:5])
    print('worker counts 1 vs 16:', 'same' if outs[0] == outs[1] else f'DIFFER {outs}')
    if outs[0] != outs[1]:
        bad += 1
    print(f'determinism: {total} seed executions x3 interpreters, {bad} mismatches')
    return 1 if bad else 0


if __name__ == '__main__':
    sys.exit(main())
