"""Executor: runs a scenario document against the REAL gearpy through its
public API and returns a History (plain JSON-able data).

Nothing in here draws a random number or reads a clock; a scenario is one
exactly repeatable execution.
"""
import builtins
import csv
import errno
import hashlib
import json
import math
import os
import shutil
import tempfile

from . import si

WORK_ROOT = os.environ.get(
    'GPSIM_WORK', os.path.join(os.path.dirname(os.path.dirname(
        os.path.abspath(__file__))), '.work'))

_gp = None


def gp():
    """Import gearpy lazily (2 s); asserts it comes from the tree under test."""
    global _gp
    if _gp is None:
        import gearpy
        import gearpy.units
        import gearpy.mechanical_objects
        import gearpy.utils
        import gearpy.solver
        import gearpy.powertrain
        import gearpy.motor_control
        import gearpy.motor_control.rules
        import gearpy.motor_control.rules.rules_base
        import gearpy.sensors
        root = os.environ.get('GEARPY_SRC', '/repo')
        here = os.path.realpath(gearpy.__file__)
        if not here.startswith(os.path.realpath(root) + os.sep):
            raise RuntimeError(
                f'gearpy imported from {here}, expected under {root}')
        _gp = gearpy
    return _gp


# ---------------------------------------------------------------------------
# load function family (stub owned by the simulator)

def eval_load(spec, th, w, t):
    if not (math.isfinite(th) and math.isfinite(w) and math.isfinite(t)):
        return 0.0          # the run has left the finite range; discarded
    v = 0.0
    for term in spec['terms']:
        k = term['t']
        if k == 'const':
            v += term['c']
        elif k == 'visc':
            v += term['c'] * w
        elif k == 'quad':
            v += term['c'] * w * abs(w)
        elif k == 'coulomb':
            v += term['F'] * (1.0 if w > 0 else (-1.0 if w < 0 else 0.0))
        elif k == 'sinpos':
            v += term['A'] * math.sin(term['w'] * th + term['ph'])
        elif k == 'sintime':
            v += term['A'] * math.sin(2 * math.pi * term['f'] * t + term['ph'])
        elif k == 'step':
            v += term['A'] if t >= term['t0'] else 0.0
        else:
            raise AssertionError(k)
    return v


def mirror_load(spec):
    """spec of  -f(-theta, -omega, t)."""
    out = {'unit': spec['unit'], 'terms': []}
    for term in spec['terms']:
        t = dict(term)
        k = t['t']
        if k in ('const', 'step', 'sintime'):
            key = 'c' if k == 'const' else 'A'
            t[key] = -t[key]
        elif k == 'sinpos':
            # -A sin(-w th + ph) = A sin(w th - ph)
            t['ph'] = -t['ph']
        # visc: -c*(-w) = c*w unchanged ; quad: -c*(-w)|w| unchanged
        out['terms'].append(t)
    return out


class Ctx:
    pass


def _exc(ex):
    return [type(ex).__name__, str(ex)[:300]]


_NP = False      # scenario flag np_inputs: numbers handed as numpy.float64


def npv(v):
    """The number as the caller of this scenario writes it: a Python float,
    or the same number as a numpy.float64 (which is a float)."""
    if _NP and type(v) is float:
        return _np_float(v)
    return v


def Q(cls, q):
    if _NP:
        q = [npv(q[0])] + list(q[1:])
    if len(q) > 2 and q[2] != q[1]:
        # the user built the quantity in unit q[2] and converted it IN PLACE
        # to q[1] before handing it to the library
        k = cls.__name__
        obj = cls(q[0] * si.factor(k, q[1]) / si.factor(k, q[2]), q[2])
        obj.to(q[1], inplace=True)
        return obj
    return cls(q[0], q[1])


def construct(spec):
    g = gp()
    U = g.units
    M = g.mechanical_objects
    k = spec['kind']

    def opt(cls, key):
        return None if spec.get(key) is None else Q(cls, spec[key])
    if k == 'DCMotor':
        kw = dict(name=spec['name'], inertia_moment=Q(U.InertiaMoment, spec['J']),
                  no_load_speed=Q(U.AngularSpeed, spec['w0']),
                  maximum_torque=Q(U.Torque, spec['Tmax']))
        if spec.get('i0') is not None:
            kw['no_load_electric_current'] = Q(U.Current, spec['i0'])
        if spec.get('imax') is not None:
            kw['maximum_electric_current'] = Q(U.Current, spec['imax'])
        return M.DCMotor(**kw)
    if k == 'Flywheel':
        return M.Flywheel(name=spec['name'],
                          inertia_moment=Q(U.InertiaMoment, spec['J']))
    if k == 'SpurGear':
        return M.SpurGear(name=spec['name'], n_teeth=spec['z'],
                          inertia_moment=Q(U.InertiaMoment, spec['J']),
                          module=opt(U.Length, 'm'),
                          face_width=opt(U.Length, 'b'),
                          elastic_modulus=opt(U.Stress, 'E'))
    if k == 'HelicalGear':
        return M.HelicalGear(name=spec['name'], n_teeth=spec['z'],
                             inertia_moment=Q(U.InertiaMoment, spec['J']),
                             helix_angle=Q(U.Angle, spec['beta']),
                             module=opt(U.Length, 'm'),
                             face_width=opt(U.Length, 'b'),
                             elastic_modulus=opt(U.Stress, 'E'))
    if k == 'WormGear':
        return M.WormGear(name=spec['name'], n_starts=spec['starts'],
                          inertia_moment=Q(U.InertiaMoment, spec['J']),
                          helix_angle=Q(U.Angle, spec['beta']),
                          pressure_angle=Q(U.Angle, spec['alpha']),
                          reference_diameter=opt(U.Length, 'd'))
    if k == 'WormWheel':
        return M.WormWheel(name=spec['name'], n_teeth=spec['z'],
                           inertia_moment=Q(U.InertiaMoment, spec['J']),
                           helix_angle=Q(U.Angle, spec['beta']),
                           pressure_angle=Q(U.Angle, spec['alpha']),
                           module=opt(U.Length, 'm'),
                           face_width=opt(U.Length, 'b'))
    raise AssertionError(k)


def _odd_number(x):
    """scenario encodings of numbers that are Real but neither float nor
    int (F_BADPARAM): a Fraction, a numpy.float32, a numpy.int64."""
    if isinstance(x, dict) and 'fraction' in x:
        from fractions import Fraction
        return Fraction(*x['fraction'])
    if isinstance(x, dict) and 'np' in x:
        import numpy as np
        return getattr(np, x['np'])(x['v'])
    return x


def declare(ctx, d):
    g = gp()
    m, s = ctx.objs[d['m']], ctx.objs[d['s']]
    if isinstance(d.get('eff'), dict):
        d = dict(d, eff=_odd_number(d['eff']))
    if isinstance(d.get('f'), dict):
        d = dict(d, f=_odd_number(d['f']))
    if d['op'] == 'joint':
        g.utils.add_fixed_joint(master=m, slave=s)
    elif d['op'] == 'gear':
        g.utils.add_gear_mating(master=m, slave=s, efficiency=npv(d['eff']))
    elif d['op'] == 'worm':
        f = d['f']
        if d.get('f_at') is not None:
            # friction placed on the library's own self-locking threshold
            # cos(alpha)*tan(beta) of the worm gear (the very float it
            # computes), or a given number of ulps beside it
            import math
            w = m if type(m).__name__ == 'WormGear' else s
            f = w.pressure_angle.cos() * w.helix_angle.tan()
            k = int(d['f_at'].get('ulps', 0))
            for _ in range(abs(k)):
                f = math.nextafter(f, 2.0 if k > 0 else -1.0)
            f = float(f)
        g.utils.add_worm_gear_mating(master=m, slave=s,
                                     friction_coefficient=npv(f))
        return f
    else:
        raise AssertionError(d['op'])


def relation_state(ctx, i):
    """Public relation attributes of element i (C10/C20 dumps)."""
    o = ctx.objs[i]
    if o is None:
        return None
    idx = {id(x): j for j, x in enumerate(ctx.objs) if x is not None}

    def ref(x):
        if x is None:
            return None
        return idx.get(id(x), 'foreign')
    out = {}
    for a in ('drives', 'driven_by'):
        if hasattr(type(o), a):
            out[a] = ref(getattr(o, a))
    if hasattr(type(o), 'mating_role'):
        r = o.mating_role
        out['mating_role'] = None if r is None else r.__name__
    for a in ('master_gear_ratio', 'master_gear_efficiency', 'self_locking'):
        if hasattr(type(o), a):
            out[a] = getattr(o, a)
    return out


def flags_state(o):
    out = {}
    for a in ('tangential_force_is_computable', 'bending_stress_is_computable',
              'contact_stress_is_computable', 'electric_current_is_computable'):
        if hasattr(type(o), a):
            try:
                out[a] = bool(getattr(o, a))
            except Exception as ex:       # noqa
                out[a] = _exc(ex)
    if hasattr(type(o), 'lewis_factor'):
        try:
            lf = o.lewis_factor
            out['lewis_factor'] = None if lf is None else float(lf)
        except AttributeError:
            out['lewis_factor'] = None
    return out


# ---------------------------------------------------------------------------
# rule seams

def make_rule_classes():
    g = gp()
    RuleBase = g.motor_control.rules.rules_base.RuleBase

    class RecordingRule(RuleBase):
        """Delegates to a real rule and records the call."""

        def __init__(self, ctx, index, spec, inner):
            self.ctx, self.index, self.spec, self.inner = ctx, index, spec, inner

        def apply(self):
            ctx = self.ctx
            rec = observe(ctx, self.index, self.spec)
            try:
                p = self.inner.apply()
            except Exception as ex:
                rec['exc'] = _exc(ex)
                ctx.rule_calls.append(rec)
                raise
            rec['p'] = None if p is None else float(p)
            rec['ptype'] = type(p).__name__
            ctx.rule_calls.append(rec)
            return p

    class ScriptedRule(RuleBase):
        """Injected proposals: instant index -> value (absent = None)."""

        def __init__(self, ctx, index, spec):
            self.ctx, self.index, self.spec = ctx, index, spec
            self.table = {int(k): v for k, v in spec['table'].items()}

        def apply(self):
            ctx = self.ctx
            rec = observe(ctx, self.index, self.spec)
            k = rec['k']
            p = npv(self.table.get(k, self.spec.get('default')))
            rec['p'] = p
            rec['ptype'] = type(p).__name__
            ctx.rule_calls.append(rec)
            return p

    return RecordingRule, ScriptedRule


def observe(ctx, index, spec):
    pt = ctx.pt
    mot = pt.elements[0]
    rec = {'rule': index, 'k': len(pt.time) - 1, 'epoch': ctx.epoch,
           't': si.obj_si(pt.time[-1]) if pt.time else None,
           't_raw': [pt.time[-1].value, pt.time[-1].unit] if pt.time else None,
           'seq': ctx.next_seq()}
    if 'enc' in spec:
        rec['th'] = si.obj_si(ctx.objs[spec['enc']].angular_position)
    if 'tach' in spec:
        rec['w'] = si.obj_si(ctx.objs[spec['tach']].angular_speed)
    lt = mot.load_torque
    rec['L0'] = None if lt is None else si.obj_si(lt)
    first = mot.time_variables['load torque']
    rec['L0_first'] = si.obj_si(first[0]) if first else None
    return rec


def build_rule(ctx, index, spec):
    g = gp()
    U = g.units
    R = g.motor_control.rules
    S = g.sensors
    k = spec['kind']
    if k == 'Scripted':
        return ctx.ScriptedRule(ctx, index, spec)
    if k == 'ConstantPWM':
        inner = R.ConstantPWM(
            timer=S.Timer(start_time=Q(U.Time, spec['start']),
                          duration=Q(U.TimeInterval, spec['duration'])),
            powertrain=ctx.pt, target_pwm_value=npv(spec['value']))
    elif k == 'ReachAngularPosition':
        inner = R.ReachAngularPosition(
            encoder=S.AbsoluteRotaryEncoder(target=ctx.objs[spec['enc']]),
            powertrain=ctx.pt,
            target_angular_position=Q(U.AngularPosition, spec['target']),
            braking_angle=Q(U.Angle, spec['brake']))
    elif k == 'StartProportional':
        inner = R.StartProportionalToAngularPosition(
            encoder=S.AbsoluteRotaryEncoder(target=ctx.objs[spec['enc']]),
            powertrain=ctx.pt,
            target_angular_position=Q(U.AngularPosition, spec['target']),
            pwm_min_multiplier=npv(spec['mult']), pwm_min=npv(spec.get('pwm_min')))
    elif k == 'StartLimitCurrent':
        inner = R.StartLimitCurrent(
            encoder=S.AbsoluteRotaryEncoder(target=ctx.objs[spec['enc']]),
            tachometer=S.Tachometer(target=ctx.objs[spec['tach']]),
            motor=ctx.objs[ctx.chain[0]],
            target_angular_position=Q(U.AngularPosition, spec['target']),
            limit_electric_current=Q(U.Current, spec['limit']))
    else:
        raise AssertionError(k)
    return ctx.RecordingRule(ctx, index, spec, inner)


STOP_OPS = {'gt': 'greater_than', 'ge': 'greater_than_or_equal_to',
            'eq': 'equal_to', 'lt': 'less_than', 'le': 'less_than_or_equal_to'}
SENSOR_VAR = {'encoder': ('angular position', 'AngularPosition'),
              'tachometer': ('angular speed', 'AngularSpeed'),
              'amperometer': ('electric current', 'Current')}


def build_stop(ctx, spec):
    g = gp()
    S = g.sensors
    U = g.units
    tgt = ctx.objs[spec['target']]
    if spec['sensor'] == 'encoder':
        sensor = S.AbsoluteRotaryEncoder(target=tgt)
    elif spec['sensor'] == 'tachometer':
        sensor = S.Tachometer(target=tgt)
    else:
        sensor = S.Amperometer(target=tgt)
    kind = SENSOR_VAR[spec['sensor']][1]
    if spec.get('wrong_kind'):
        # F_BADPARAM: a threshold of another kind than the sensor reads; the
        # constructor accepts it, the first comparison raises TypeError
        kind = spec['wrong_kind']
    thr = Q(getattr(U, kind), spec['thr'])
    if spec.get('np'):
        # threshold computed with numpy by the caller: a numpy.float64
        thr = getattr(U, kind)(_np_float(thr.value), thr.unit)
    return g.utils.StopCondition(
        sensor=sensor, threshold=thr,
        operator=getattr(g.utils.StopCondition, STOP_OPS[spec['op']]))


def _np_float(v):
    import numpy as np
    return np.float64(v)


# ---------------------------------------------------------------------------
# state dumps

_MISSING = '<missing>'


def dump(ctx, full=True):
    g = gp()
    U = g.units
    pt = ctx.pt
    out = {'n': len(pt.time)}
    out['time'] = [si.obj_si(t) if isinstance(t, U.Time) else None
                   for t in pt.time]
    out['time_units'] = sorted({getattr(t, 'unit', '?') for t in pt.time})
    out['time_bad'] = [i for i, t in enumerate(pt.time)
                       if not isinstance(t, U.Time)]
    els = []
    for el in pt.elements:
        tv = el.time_variables
        d = {'vars': list(tv.keys()), 'len': {}, 'tv': {}, 'bad': {},
             'live': {}}
        for var, lst in tv.items():
            kind = si.VAR_KIND.get(var, '?')
            d['len'][var] = len(lst)
            vals = []
            bad = []
            if kind is None:
                for i, x in enumerate(lst):
                    ok = isinstance(x, (int, float)) and not isinstance(x, bool)
                    vals.append(float(x) if ok else None)
                    if not ok:
                        bad.append(i)
            elif kind == '?':
                bad = list(range(len(lst)))
                vals = [None] * len(lst)
            else:
                cls = getattr(U, kind)
                for i, x in enumerate(lst):
                    if isinstance(x, cls):
                        vals.append(si.obj_si(x))
                    else:
                        vals.append(None)
                        bad.append(i)
            d['tv'][var] = vals
            d['bad'][var] = bad
            attr = var.replace(' ', '_')
            try:
                lv = getattr(el, attr)
            except AttributeError:
                lv = _MISSING
            if lv is _MISSING:
                d['live'][var] = _MISSING
            elif lv is None:
                d['live'][var] = None
            elif kind is None:
                d['live'][var] = float(lv)
            elif kind != '?' and isinstance(lv, getattr(U, kind)):
                d['live'][var] = si.obj_si(lv)
            else:
                d['live'][var] = '<badtype>'
        els.append(d)
    out['elems'] = els
    # raw (value, unit) of the series a stop condition senses: exact
    # same-unit comparisons can then be judged exactly (C16)
    raw = []
    for ss in ctx.scn.get('stops', []):
        var = SENSOR_VAR[ss['sensor']][0]
        try:
            lst = ctx.objs[ss['target']].time_variables.get(var, [])
            raw.append([[x.value, x.unit] for x in lst])
        except Exception:      # noqa
            raw.append(None)
    out['stop_raw'] = raw
    return out


def df_to_dict(df):
    cols = [str(c) for c in df.columns]
    rows = {}
    for name in df.index:
        r = {}
        for c in df.columns:
            v = df.loc[name, c]
            try:
                fv = float(v)
                r[str(c)] = None if math.isnan(fv) else fv
            except (TypeError, ValueError):
                r[str(c)] = None if v is None else repr(v)
        rows[str(name)] = r
    return {'columns': cols, 'index': [str(i) for i in df.index], 'rows': rows}


# ---------------------------------------------------------------------------
# I/O fault seam (only around one export call)

class _FaultFile:
    def __init__(self, f, plan, state):
        self._f, self._plan, self._state = f, plan, state

    def write(self, data):
        st = self._state
        plan = self._plan
        n = len(data)
        if plan['kind'] == 'write_error' and st['file_no'] == plan['file'] and \
                st['bytes'] + n > plan['at_byte']:
            keep = max(0, plan['at_byte'] - st['bytes'])
            if keep:
                self._f.write(data[:keep])
            st['bytes'] += keep
            st['fired'] = True
            raise OSError(getattr(errno, plan['errno']), os.strerror(
                getattr(errno, plan['errno'])))
        st['bytes'] += n
        return self._f.write(data)

    def close(self):
        st, plan = self._state, self._plan
        self._f.close()
        if plan['kind'] == 'close_error' and st['file_no'] == plan['file'] \
                and not st.get('close_fired'):
            st['close_fired'] = True
            st['fired'] = True
            raise OSError(getattr(errno, plan['errno']), os.strerror(
                getattr(errno, plan['errno'])))

    def __getattr__(self, a):
        return getattr(self._f, a)

    def __enter__(self):
        return self

    def __exit__(self, *a):
        self.close()
        return False

    def __iter__(self):
        return iter(self._f)


class IOFaults:
    """Wraps builtins.open / os.makedirs for the duration of a `with`."""

    def __init__(self, plan, root):
        self.plan, self.root = plan, os.path.realpath(root)
        self.state = {'file_no': -1, 'bytes': 0, 'fired': False, 'opens': 0,
                      'makedirs': 0}

    def __enter__(self):
        self._open = builtins.open
        self._makedirs = os.makedirs
        plan, st = self.plan, self.state
        real_open, real_makedirs = self._open, self._makedirs

        def inside(p):
            try:
                return os.path.realpath(str(p)).startswith(self.root)
            except Exception:     # noqa
                return False

        def fopen(file, mode='r', *a, **kw):
            if isinstance(file, (str, bytes, os.PathLike)) and inside(file) \
                    and any(c in mode for c in 'wax+'):
                st['opens'] += 1
                st['file_no'] += 1
                st['bytes'] = 0
                if plan['kind'] == 'open_error' and st['file_no'] == plan['file']:
                    st['fired'] = True
                    raise OSError(getattr(errno, plan['errno']),
                                  os.strerror(getattr(errno, plan['errno'])),
                                  str(file))
                return _FaultFile(real_open(file, mode, *a, **kw), plan, st)
            return real_open(file, mode, *a, **kw)

        def fmakedirs(name, *a, **kw):
            if inside(name):
                st['makedirs'] += 1
                if plan['kind'] == 'makedirs_error':
                    st['fired'] = True
                    raise OSError(getattr(errno, plan['errno']),
                                  os.strerror(getattr(errno, plan['errno'])),
                                  str(name))
            return real_makedirs(name, *a, **kw)
        builtins.open = fopen
        os.makedirs = fmakedirs
        return self

    def __exit__(self, *a):
        builtins.open = self._open
        os.makedirs = self._makedirs
        return False


def read_csvs(folder):
    out = {}
    if not os.path.isdir(folder):
        return out
    for fn in sorted(os.listdir(folder)):
        p = os.path.join(folder, fn)
        if os.path.isdir(p):
            continue
        with open(p, newline='') as f:
            rows = list(csv.reader(f))
        out[fn] = rows
    return out


# ---------------------------------------------------------------------------
# the executor

class ScenarioTimeout(BaseException):
    pass


def execute(scn, keep_objects=False, wall_limit=None):
    """Run the scenario under a wall limit; returns the history dict."""
    import signal
    if wall_limit is None:
        wall_limit = float(scn.get('wall') or os.environ.get('GPSIM_WALL', '20'))

    def on_alarm(signum, frame):
        raise ScenarioTimeout()
    # CPU time of this process, not wall time: a loaded machine must not
    # turn into a verdict
    old = signal.signal(signal.SIGVTALRM, on_alarm)
    signal.setitimer(signal.ITIMER_VIRTUAL, wall_limit)
    try:
        return _execute(scn, keep_objects)
    except ScenarioTimeout:
        return {'timeout': True, 'build': [], 'ops': [], 'assembled': False,
                'rule_calls': [], 'load_calls': []}
    finally:
        signal.setitimer(signal.ITIMER_VIRTUAL, 0)
        signal.signal(signal.SIGVTALRM, old)


def _execute(scn, keep_objects=False, prev_ctx=None):
    """One phase.  With prev_ctx the element objects of the previous phase
    are reused (only scn['phase_decls'] are declared, on top of what is
    already declared) and a new Powertrain is assembled."""
    global _NP
    _NP = bool(scn.get('np_inputs'))
    g = gp()
    U = g.units
    ctx = Ctx()
    ctx.scn = scn
    ctx.seq = 0
    ctx.epoch = 0
    ctx.rule_calls = []
    ctx.load_calls = []

    def next_seq():
        ctx.seq += 1
        return ctx.seq
    ctx.next_seq = next_seq
    H = {'build': [], 'ops': [], 'assembled': False}
    ctx.H = H

    # -- construct
    ctx.objs = []
    for i, spec in enumerate(scn['elements']):
        if prev_ctx is not None and i < len(prev_ctx.objs):
            ctx.objs.append(prev_ctx.objs[i])
            continue
        try:
            ctx.objs.append(construct(spec))
            H['build'].append({'ev': 'construct', 'i': i, 'exc': None})
        except Exception as ex:      # noqa
            ctx.objs.append(None)
            H['build'].append({'ev': 'construct', 'i': i, 'exc': _exc(ex)})
    # bystanders: other components of the user's program, built after the
    # scenario's own (state shared between instances would leak from them)
    ctx.bystanders = []
    if prev_ctx is None:
        for spec in scn.get('bystanders', []) or []:
            try:
                o = construct(spec)
                if spec.get('pwm') is not None:
                    o.pwm = spec['pwm']
                ctx.bystanders.append(o)
            except Exception:      # noqa
                pass
    track_rel = scn.get('track_relations', False)

    # -- declarations
    first_decl = scn.get('phase_first_decl', 0) if prev_ctx is not None else 0
    for k, d in enumerate(scn['decls']):
        if k < first_decl:
            continue
        ev = {'ev': 'decl', 'k': k, 'exc': None}
        if ctx.objs[d['m']] is None or ctx.objs[d['s']] is None:
            ev['exc'] = ['Skipped', 'element missing']
            H['build'].append(ev)
            continue
        if track_rel:
            ev['before'] = [relation_state(ctx, d['m']),
                            relation_state(ctx, d['s'])]
        try:
            f_used = declare(ctx, d)
            if d.get('f_at') is not None:
                ev['f_used'] = f_used
        except Exception as ex:      # noqa
            ev['exc'] = _exc(ex)
        if track_rel:
            ev['after'] = [relation_state(ctx, d['m']),
                           relation_state(ctx, d['s'])]
        H['build'].append(ev)
    if track_rel:
        H['relations'] = [relation_state(ctx, i)
                          for i in range(len(ctx.objs))]
    H['flags'] = [None if o is None else flags_state(o) for o in ctx.objs]

    # -- assemble
    motor_i = scn.get('motor', 0)
    ctx.pt = None
    if scn.get('assemble', True) and ctx.objs[motor_i] is not None:
        ev = {'ev': 'assemble', 'exc': None}
        try:
            ctx.pt = g.powertrain.Powertrain(motor=ctx.objs[motor_i])
            idx = {id(o): j for j, o in enumerate(ctx.objs) if o is not None}
            ev['chain'] = [idx.get(id(e), 'foreign') for e in ctx.pt.elements]
            ev['elements_type'] = type(ctx.pt.elements).__name__
            ev['self_locking'] = ctx.pt.self_locking
            ctx.chain = ev['chain']
            H['assembled'] = True
        except Exception as ex:      # noqa
            ev['exc'] = _exc(ex)
        H['build'].append(ev)
    if ctx.pt is None:
        H['rule_calls'] = []
        H['load_calls'] = []
        if keep_objects:
            H['_ctx'] = ctx
        return H
    pt = ctx.pt
    H['flags_assembled'] = [None if o is None else flags_state(o)
                            for o in ctx.objs]

    # -- load, initial conditions
    ctx.load2_calls = []

    def attach_load(spec, calls=None):
        if calls is None:
            calls = ctx.load_calls
        li = spec.get('on', ctx.chain[-1])
        unit = spec['unit']
        fac = si.factor('Torque', unit)

        def external_torque(angular_position, angular_speed, time):
            th = si.obj_si(angular_position)
            w = si.obj_si(angular_speed)
            t = si.obj_si(time)
            if spec.get('noise'):
                # control experiment: conditioning of the load function
                # itself with respect to rounding of its arguments
                sg = 1 if len(calls) % 2 else -1
                v = eval_load(spec, th * (1 + sg * spec['noise']),
                              w * (1 - sg * spec['noise']),
                              t * (1 + sg * spec['noise']))
            else:
                v = eval_load(spec, th, w, t)
            if spec.get('noise'):
                # rounding-level perturbation at every call (used only by the
                # numerical-stability control experiment of the differentials)
                v *= 1.0 + spec['noise'] * (1 if len(calls) % 2 else -1)
            calls.append({'seq': next_seq(), 'epoch': ctx.epoch,
                                   'k': len(pt.time) - 1, 't': t, 'th': th,
                                   'w': w, 'v': v})
            # a user function written with numpy hands back numpy scalars
            # (numpy.float64 is a float): same number, other type
            wrap = _np_float if spec.get('np') else float
            if spec.get('unit2') and t >= spec.get('t_unit2', 0.0):
                # a user function may return its torque in any unit, and
                # not always the same one
                return U.Torque(wrap(v / si.factor('Torque', spec['unit2'])),
                                spec['unit2'])
            return U.Torque(wrap(v / fac), unit)
        ctx.objs[li].external_torque = external_torque
        H['load_on'] = li
    if scn.get('load') is not None:
        attach_load(scn['load'])
    if scn.get('load2') is not None:
        # a second external torque, on an intermediate gear (the library
        # lets it replace the load coming from downstream)
        attach_load(scn['load2'], ctx.load2_calls)
        H['load_on'] = scn.get('load', {}).get('on', ctx.chain[-1])
        H['load2_on'] = scn['load2']['on']
    init = scn.get('init')

    def apply_ic(with_pwm=True):
        last = ctx.objs[ctx.chain[-1]]
        last.angular_position = Q(U.AngularPosition, init['position'])
        last.angular_speed = Q(U.AngularSpeed, init['speed'])
        if init.get('pwm') is not None and with_pwm:
            ctx.objs[ctx.chain[0]].pwm = npv(init['pwm'])
    if init is not None:
        apply_ic()

    # -- control, stops
    ctx.RecordingRule, ctx.ScriptedRule = make_rule_classes()
    ctx.control = None
    H['rules_built'] = []
    if scn.get('rules') or scn.get('empty_control'):
        ctx.control = g.motor_control.PWMControl(powertrain=pt)
        for i, rs in enumerate(scn.get('rules') or []):
            if rs.get('from_run'):
                # added to the same controller later, between two runs
                H['rules_built'].append('later')
                continue
            try:
                ctx.control.add_rule(build_rule(ctx, i, rs))
                H['rules_built'].append(None)
            except Exception as ex:      # noqa
                H['rules_built'].append(_exc(ex))
    ctx.run_ordinal = 0
    ctx.stops = []
    H['stops_built'] = []
    for ss in scn.get('stops', []):
        try:
            ctx.stops.append(build_stop(ctx, ss))
            H['stops_built'].append(None)
        except Exception as ex:      # noqa
            ctx.stops.append(None)
            H['stops_built'].append(_exc(ex))

    solver = None
    solver_id = 0
    workdir = None
    try:
        for oi, op in enumerate(scn['schedule']):
            rec = {'op': op['op'], 'i': oi, 'exc': None, 'epoch': ctx.epoch,
                   'n_before': len(pt.time), 'seq': next_seq()}
            kind = op['op']
            if kind == 'run':
                if ctx.control is not None:
                    for i, rs in enumerate(scn.get('rules') or []):
                        if rs.get('from_run') and \
                                rs['from_run'] == ctx.run_ordinal:
                            try:
                                ctx.control.add_rule(build_rule(ctx, i, rs))
                                H['rules_built'][i] = None
                            except Exception as ex:      # noqa
                                H['rules_built'][i] = _exc(ex)
                if op.get('new_control') and ctx.control is not None:
                    # the user builds a new, identical controller for this
                    # run (same rules, new objects) instead of re-using the
                    # first one
                    ctx.control = g.motor_control.PWMControl(powertrain=pt)
                    for i, rs in enumerate(scn.get('rules') or []):
                        if (rs.get('from_run') or 0) <= ctx.run_ordinal and \
                                H['rules_built'][i] is None:
                            ctx.control.add_rule(build_rule(ctx, i, rs))
                    rec['new_control'] = True
                rec['run_ordinal'] = ctx.run_ordinal
                ctx.run_ordinal += 1
                if solver is None or op.get('solver') == 'new':
                    solver = g.solver.Solver(powertrain=pt)
                    solver_id += 1
                rec['solver_id'] = solver_id
                rec['pwm_in'] = float(pt.elements[0].pwm)
                dt = Q(U.TimeInterval, op['dt'])
                if op.get('T_mode') == 'product':
                    T = dt * op['n']
                else:
                    T = Q(U.TimeInterval, op['T'])
                rec['T_presented'] = [T.value, T.unit]
                control = ctx.control if op.get('control') else None
                stop = None
                if op.get('stop') is not None:
                    stop = ctx.stops[op['stop']]
                rec['rule_calls_from'] = len(ctx.rule_calls)
                rec['load_calls_from'] = len(ctx.load_calls)
                try:
                    solver.run(time_discretization=dt, simulation_time=T,
                               motor_control=control, stop_condition=stop)
                except Exception as ex:      # noqa
                    rec['exc'] = _exc(ex)
            elif kind == 'reset':
                try:
                    pt.reset()
                    ctx.epoch += 1
                except Exception as ex:      # noqa
                    rec['exc'] = _exc(ex)
                if op.get('reapply') and init is not None:
                    apply_ic(op.get('reapply_pwm', True))
            elif kind == 'set_pwm':
                try:
                    pt.elements[0].pwm = npv(op['value'])
                except Exception as ex:      # noqa
                    rec['exc'] = _exc(ex)
            elif kind == 'set_state':
                # the user re-references the output between two runs: a new
                # position and/or speed assigned to the last element
                try:
                    last = ctx.objs[ctx.chain[-1]]
                    if op.get('position') is not None:
                        last.angular_position = Q(U.AngularPosition,
                                                  op['position'])
                    if op.get('speed') is not None:
                        last.angular_speed = Q(U.AngularSpeed, op['speed'])
                except Exception as ex:      # noqa
                    rec['exc'] = _exc(ex)
            elif kind == 'snapshot':
                kw = dict(op.get('units', {}))
                try:
                    if 'at' in op:
                        # target relative to the recorded axis: instant
                        # i = floor(u*(n-1)) plus fraction f of the next step
                        u, f, tu = op['at']
                        n = len(pt.time)
                        i = min(int(u * (n - 1)), n - 2)
                        if u >= 1.0 and f == 0:
                            i = n - 1         # the final recorded instant
                        if f == 0:
                            target = U.Time(pt.time[i].value, pt.time[i].unit)
                            if 0 < i:
                                target = target.to(tu)
                        else:
                            t0, t1 = (si.obj_si(pt.time[i]),
                                      si.obj_si(pt.time[i + 1]))
                            target = U.Time((t0 + f * (t1 - t0)) /
                                            si.factor('Time', tu), tu)
                        if op.get('as_interval') and target.value > 0:
                            # a TimeInterval is a Time: a legal target
                            target = U.TimeInterval(target.value, target.unit)
                            rec['target_class'] = 'TimeInterval'
                        rec['t_si'] = si.obj_si(target)
                        rec['t_index'] = [i, f]
                    else:
                        target = Q(U.Time, op['t'])
                        rec['t_si'] = si.obj_si(target)
                    df = pt.snapshot(target_time=target,
                                     variables=op.get('vars'),
                                     print_data=False, **kw)
                    rec['df'] = df_to_dict(df)
                except Exception as ex:      # noqa
                    rec['exc'] = _exc(ex)
            elif kind == 'export':
                os.makedirs(WORK_ROOT, exist_ok=True)
                if workdir is None:
                    workdir = tempfile.mkdtemp(prefix='x', dir=WORK_ROOT)
                folder = os.path.join(workdir, f'op{oi}', 'data')
                kw = dict(op.get('units', {}))
                fault = op.get('fault')
                try:
                    if fault:
                        with IOFaults(fault, workdir) as io:
                            try:
                                pt.export_time_variables(folder_path=folder,
                                                         **kw)
                            finally:
                                rec['io'] = dict(io.state)
                    else:
                        pt.export_time_variables(folder_path=folder, **kw)
                except Exception as ex:      # noqa
                    rec['exc'] = _exc(ex)
                    rec['exc'][1] = rec['exc'][1].replace(workdir, '<work>')
                try:
                    rec['files'] = read_csvs(folder)
                except Exception as ex:      # noqa
                    rec['files_exc'] = _exc(ex)
            elif kind == 'probe_immutable':
                res = {}
                for attr, val in (('elements', ()), ('self_locking', True),
                                  ('time', [])):
                    try:
                        setattr(pt, attr, val)
                        res['assign_' + attr] = 'assigned'
                    except AttributeError:
                        res['assign_' + attr] = 'AttributeError'
                    except Exception as ex:      # noqa
                        res['assign_' + attr] = type(ex).__name__
                idx = {id(o): j for j, o in enumerate(ctx.objs)
                       if o is not None}
                res['chain'] = [idx.get(id(e), 'foreign')
                                for e in pt.elements]
                res['elements_type'] = type(pt.elements).__name__
                res['self_locking'] = pt.self_locking
                rec['probe'] = res
            elif kind == 'other_powertrain':
                # a SECOND powertrain on the same motor: one chain gear is
                # mated with a new output gear, the new powertrain is
                # simulated and reset, then the first one is used again
                try:
                    new = construct(op['element'])
                    if not hasattr(ctx, 'extra'):
                        ctx.extra = []
                    ctx.extra.append(new)
                    g.utils.add_gear_mating(master=ctx.objs[op['decl']['m']],
                                            slave=new,
                                            efficiency=op['decl']['eff'])
                    other = g.powertrain.Powertrain(motor=ctx.objs[ctx.chain[0]])
                    rec['other_chain_len'] = len(other.elements)
                    lv = op['load']
                    new.external_torque = (
                        lambda angular_position, angular_speed, time:
                        U.Torque(lv, 'Nm'))
                    new.angular_position = U.AngularPosition(0, 'rad')
                    new.angular_speed = U.AngularSpeed(0, 'rad/s')
                    dt2 = Q(U.TimeInterval, op['dt'])
                    g.solver.Solver(powertrain=other).run(
                        time_discretization=dt2, simulation_time=dt2 * op['n'])
                    rec['other_instants'] = len(other.time)
                    other.reset()
                    if op.get('reapply') and init is not None:
                        apply_ic()
                except Exception as ex:      # noqa
                    rec['exc'] = _exc(ex)
            elif kind == 'branch_off':
                # after assembly a chain element is declared as the master
                # of a NEW element (say, to build a second powertrain on the
                # same parts); the assembled powertrain keeps its own chain
                try:
                    new = construct(op['element'])
                    if not hasattr(ctx, 'extra'):
                        ctx.extra = []
                    ctx.extra.append(new)      # not part of ctx.objs indices
                    g.utils.add_fixed_joint(master=ctx.objs[op['decl']['m']],
                                            slave=new)
                except Exception as ex:      # noqa
                    rec['exc'] = _exc(ex)
            elif kind == 'set_load':
                # the user replaces the external torque function between runs
                attach_load(op['load'])
            elif kind == 'convert_live':
                # the user converts a live quantity IN PLACE to another unit
                # between two operations (legal; physics must not change)
                try:
                    if op['attr'] == 'time':
                        pt.time[-1].to(op['unit'], inplace=True)
                    else:
                        q = getattr(ctx.objs[op['elem']], op['attr'])
                        consts = [getattr(g.solver, nm, None) for nm in (
                            'NULL_ANGULAR_SPEED', 'NULL_ANGULAR_ACCELERATION',
                            'NULL_TORQUE')]
                        if any(q is c for c in consts):
                            # a held element's speed IS the solver's module
                            # level constant: converting it in place would
                            # change library-global state and leak into the
                            # following scenarios of this process
                            rec['skipped_alias'] = True
                        else:
                            q.to(op['unit'], inplace=True)
                except Exception as ex:      # noqa
                    rec['exc'] = _exc(ex)
            elif kind == 'motor_probe':
                # direct use of the motor's own API on user-set state; the
                # live driving torque may be re-expressed in another unit
                # (in place or by assignment) before the current is asked for
                mot = pt.elements[0]
                pts = []
                for q in op['points']:
                    r = {'exc': None}
                    try:
                        mot.angular_speed = Q(U.AngularSpeed, q['w'])
                        mot.pwm = q['pwm']
                        mot.compute_torque()
                        r['w'] = si.obj_si(mot.angular_speed)
                        r['pwm'] = float(mot.pwm)
                        r['T'] = si.obj_si(mot.driving_torque)
                        if q.get('relabel'):
                            if q.get('inplace'):
                                mot.driving_torque.to(q['relabel'], inplace=True)
                            else:
                                mot.driving_torque = \
                                    mot.driving_torque.to(q['relabel'])
                        if mot.electric_current_is_computable:
                            mot.compute_electric_current()
                            r['i'] = si.obj_si(mot.electric_current)
                    except Exception as ex:      # noqa
                        r['exc'] = _exc(ex)
                    pts.append(r)
                rec['points'] = pts
            elif kind == 'redeclare':
                try:
                    declare(ctx, op['decl'])
                except Exception as ex:      # noqa
                    rec['exc'] = _exc(ex)
            else:
                raise AssertionError(kind)
            rec['n_after'] = len(pt.time)
            rec['epoch_after'] = ctx.epoch
            if kind in ('run', 'reset') or op.get('dump'):
                rec['dump'] = dump(ctx)
            H['ops'].append(rec)
            if kind == 'run' and rec['exc'] is not None:
                if op.get('expect_failure') and rec['exc'][0] == 'TypeError':
                    # the user's mistake (a stop condition that cannot be
                    # compared) ended this run; they correct it and go on
                    rec['expected_failure'] = True
                    continue
                H['aborted_at'] = oi      # a run that raised ends the scenario
                break
    finally:
        if workdir is not None:
            shutil.rmtree(workdir, ignore_errors=True)
    H['rule_calls'] = ctx.rule_calls
    H['load_calls'] = ctx.load_calls
    if scn.get('next') and H.get('aborted_at') is None and not pt.time:
        # a further phase on the SAME element objects: more declarations
        # (re-mating / re-routing), a new Powertrain, a new schedule
        H['next'] = _execute(next_phase(scn), keep_objects, prev_ctx=ctx)
    if keep_objects:
        H['_ctx'] = ctx
    return H


def next_phase(scn):
    """The scenario document of the phase after scn (same elements plus new
    ones, all declarations so far plus the new ones, a new schedule)."""
    nx = scn['next']
    s2 = {k: v for k, v in scn.items() if k != 'next'}
    s2['elements'] = scn['elements'] + nx.get('elements', [])
    # declarations made during the previous phase's schedule are part of
    # the declaration history too (already applied to the objects)
    redecl = [o['decl'] for o in scn.get('schedule', [])
              if o['op'] == 'redeclare']
    s2['decls'] = scn['decls'] + redecl + nx['decls']
    s2['phase_first_decl'] = len(scn['decls']) + len(redecl)
    s2['schedule'] = nx['schedule']
    if 'init' in nx:
        s2['init'] = nx['init']
    if 'next' in nx:
        s2['next'] = nx['next']
    return s2


# ---------------------------------------------------------------------------
# digest of a history (determinism tests)

def _canon(x):
    if isinstance(x, float):
        if math.isnan(x):
            return 'nan'
        return x.hex()
    if isinstance(x, dict):
        return {str(k): _canon(v) for k, v in sorted(x.items(),
                                                     key=lambda kv: str(kv[0]))
                if not str(k).startswith('_')}
    if isinstance(x, (list, tuple)):
        return [_canon(v) for v in x]
    return x


def digest(H):
    return hashlib.sha256(json.dumps(_canon(H), sort_keys=True)
                          .encode()).hexdigest()
