"""Sensitivity self-test: a catalogue of small, realistic breakages.

  python -m gpsim.mutants [--only C01,C02] [--ids m1,m2] [--n 1500]

Each mutant is applied to a scratch COPY of /repo/gearpy (outside /repo and
/verif), the property's quick check is run against the copy (GEARPY_SRC +
PYTHONPATH), exit 1 is expected, and the copy is removed.  Not a registered
check; its summary is committed as mutants/RESULTS.md.
"""
import argparse
import json
import os
import shutil
import subprocess
import sys
import tempfile
import time

ROOT = os.path.dirname(os.path.dirname(os.path.abspath(__file__)))
S = 'gearpy/solver.py'
M = 'gearpy/mechanical_objects/dc_motor.py'
R = 'gearpy/utils/relations.py'
P = 'gearpy/powertrain.py'

# (id, property, file, old, new[, count])
CATALOGUE = [
    # ---- C01
    ('c01_ratio_inverted', 'C01', S,
     "            gear_ratio*self.__powertrain.elements[i + 1].angular_speed",
     "            self.__powertrain.elements[i + 1].angular_speed/gear_ratio"),
    ('c01_motor_position_skipped', 'C01', S,
     "            self._transmit_angular_position(gear_ratio=gear_ratio, i=i)\n",
     "            if i > 0 or self.__powertrain.elements[0].angular_position is None:\n                self._transmit_angular_position(gear_ratio=gear_ratio, i=i)\n"),
    ('c01_lock_partial', 'C01', S,
     "        for element in self.__powertrain.elements:\n            element.angular_speed = NULL_ANGULAR_SPEED",
     "        for element in self.__powertrain.elements[1:]:\n            element.angular_speed = NULL_ANGULAR_SPEED"),
    ('c01_acc_wrong_ratio', 'C01', S,
     "            gear_ratio = self.__powertrain.elements[i + 1].master_gear_ratio\n            self._transmit_angular_acceleration(gear_ratio=gear_ratio, i=i)",
     "            gear_ratio = self.__powertrain.elements[max(i, 1)].master_gear_ratio\n            self._transmit_angular_acceleration(gear_ratio=gear_ratio, i=i)"),
    # ---- C02
    ('c02_eff_divided', 'C02', S,
     "                self.__powertrain.elements[i - 1].driving_torque * \\\n                self.__powertrain.elements[i].master_gear_efficiency * \\",
     "                self.__powertrain.elements[i - 1].driving_torque / \\\n                self.__powertrain.elements[i].master_gear_efficiency * \\"),
    ('c02_load_no_eff', 'C02', S,
     "                self.__powertrain.elements[i].load_torque / \\\n                self.__powertrain.elements[i].master_gear_efficiency / \\\n",
     "                self.__powertrain.elements[i].load_torque / \\\n"),
    ('c02_stale_time', 'C02', S,
     "                            time=self.__powertrain.time[-1],",
     "                            time=self.__powertrain.time[-2 if len(self.__powertrain.time) > 1 else -1],"),
    ('c02_net_sum', 'C02', S,
     "            element.torque = element.driving_torque - element.load_torque",
     "            element.torque = element.driving_torque + element.load_torque"),
    ('c02_joint_keeps_old_efficiency', 'C02', R,
     "    if isinstance(slave, GearBase | WormGear):\n        slave.master_gear_efficiency = 1\n", ""),
    # ---- C03
    ('c03_ratio_squared', 'C03', S,
     "            self.__powertrain_inertia_moment *= element.master_gear_ratio\n",
     "            self.__powertrain_inertia_moment *= element.master_gear_ratio**2\n"),
    ('c03_last_inertia_forgotten', 'C03', S,
     "        for element in self.__powertrain.elements[1:]:\n            self.__powertrain_inertia_moment *= element.master_gear_ratio\n            self.__powertrain_inertia_moment += element.inertia_moment",
     "        for element in self.__powertrain.elements[1:]:\n            self.__powertrain_inertia_moment *= element.master_gear_ratio\n            if element is not self.__powertrain.elements[-1]:\n                self.__powertrain_inertia_moment += element.inertia_moment"),
    ('c03_position_before_speed', 'C03', S,
     "        self.__powertrain.elements[-1].angular_speed += \\\n            self.__powertrain.elements[-1].angular_acceleration * \\\n            time_discretization\n        self.__powertrain.elements[-1].angular_position += \\\n            self.__powertrain.elements[-1].angular_speed*time_discretization",
     "        self.__powertrain.elements[-1].angular_position += \\\n            self.__powertrain.elements[-1].angular_speed*time_discretization\n        self.__powertrain.elements[-1].angular_speed += \\\n            self.__powertrain.elements[-1].angular_acceleration * \\\n            time_discretization"),
    ('c03_dt_wrong_unit', 'C03', S,
     "            self.__powertrain.elements[-1].angular_acceleration * \\\n            time_discretization\n",
     "            self.__powertrain.elements[-1].angular_acceleration * \\\n            TimeInterval(time_discretization.value, 'sec')\n"),
    # ---- C11
    ('c11_duplicate_initial_instant', 'C11', S,
     "        for k in range(1, n_steps + 1):\n",
     "        for k in range(0 if self.__powertrain.time[-1].value == 0 else 1, n_steps + 1):\n"),
    ('c11_one_step_too_many', 'C11', S,
     "        for k in range(1, n_steps + 1):\n",
     "        for k in range(1, n_steps + 2):\n"),
    ('c11_continuation_restarts_from_zero', 'C11', S,
     "                        initial_time.value + k*time_discretization.value\n",
     "                        k*time_discretization.value\n"),
    ('c11_arange_again', 'C11', S,
     "        n_steps = int(np.ceil(\n            round(simulation_time/time_discretization, 9)\n        ))\n",
     "        n_steps = len(np.arange(time_discretization.value, simulation_time.to(time_discretization.unit).value + time_discretization.value, time_discretization.value))\n"),
    ('c11_start_unit_not_converted', 'C11', S,
     "            initial_time = self.__powertrain.time[-1].to(\n                time_discretization.unit\n            )\n",
     "            initial_time = self.__powertrain.time[-1]\n"),
    # ---- C12
    ('c12_reset_keeps_last_instant', 'C12', P,
     "        self.__time = []\n\n        for element in self.elements:",
     "        self.__time = self.__time[-1:]\n\n        for element in self.elements:"),
    ('c12_lock_flag_cleared_every_run', 'C12', S,
     "        self._compute_powertrain_inertia()\n        if self.__powertrain.time:",
     "        self._compute_powertrain_inertia()\n        self.__powertrain_is_locked = False\n        if self.__powertrain.time:"),
    ('c12_lock_flag_not_cleared_on_fresh_run', 'C12', S,
     "            self.__powertrain_is_locked = False\n            self.__powertrain.update_time(initial_time)",
     "            self.__powertrain.update_time(initial_time)"),
    ('c12_continuation_recomputes_initial', 'C12', S,
     "            initial_time = self.__powertrain.time[-1].to(\n                time_discretization.unit\n            )\n",
     "            initial_time = self.__powertrain.time[-1].to(\n                time_discretization.unit\n            )\n            self._compute_powertrain_variables(motor_control=motor_control)\n"),
    ('c12_continuation_dt_raw_value', 'C12', S,
     "            self._time_integration(time_discretization=time_discretization)\n",
     "            self._time_integration(time_discretization=time_discretization if len(self.__powertrain.time) < 3 or self.__powertrain.time[1].unit == time_discretization.unit else TimeInterval(time_discretization.value, self.__powertrain.time[1].unit))\n"),
    # ---- C16
    ('c16_checked_before_compute', 'C16', S,
     "            self._time_integration(time_discretization=time_discretization)\n            self._compute_powertrain_variables(motor_control=motor_control)\n            if stop_condition is not None:\n                if stop_condition.check_condition():\n                    break\n",
     "            if stop_condition is not None:\n                if stop_condition.check_condition():\n                    self.__powertrain.time.pop()\n                    break\n            self._time_integration(time_discretization=time_discretization)\n            self._compute_powertrain_variables(motor_control=motor_control)\n"),
    ('c16_checked_every_second_step', 'C16', S,
     "            if stop_condition is not None:\n                if stop_condition.check_condition():",
     "            if stop_condition is not None and k % 2 == 0:\n                if stop_condition.check_condition():"),
    ('c16_never_stops', 'C16', S,
     "                if stop_condition.check_condition():\n                    break\n",
     "                if stop_condition.check_condition():\n                    pass\n"),
    ('c16_ge_is_gt', 'C16', 'gearpy/utils/stop_condition/operator.py',
     "        return sensor_value >= threshold\n",
     "        return sensor_value > threshold\n"),
    ('c16_tachometer_reads_acceleration_sign', 'C16', 'gearpy/sensors/tachometer.py',
     "            return self.__target.angular_speed\n",
     "            return abs(self.__target.angular_speed)\n"),
    # ---- C17
    ('c17_reset_leaves_load_torque', 'C17', P,
     "            for variable in element.time_variables.keys():\n                element.time_variables[variable] = []",
     "            for variable in element.time_variables.keys():\n                if variable != 'load torque':\n                    element.time_variables[variable] = []"),
    ('c17_pwm_appended_twice', 'C17', M,
     "            self.time_variables['pwm'].append(self.pwm)\n",
     "            self.time_variables['pwm'].append(self.pwm)\n            if len(self.time_variables['pwm']) == 7:\n                self.time_variables['pwm'].append(self.pwm)\n"),
    ('c17_spur_skips_zero_stress', 'C17', 'gearpy/mechanical_objects/spur_gear.py',
     "            if self.bending_stress_is_computable:\n                self.time_variables['bending stress'].append(\n",
     "            if self.bending_stress_is_computable and self.bending_stress.value != 0:\n                self.time_variables['bending stress'].append(\n"),
    ('c17_wormwheel_always_advertises_bending', 'C17', 'gearpy/mechanical_objects/worm_wheel.py',
     "        if not self.bending_stress_is_computable:\n            time_variables.pop('bending stress', None)\n",
     "        if not self.bending_stress_is_computable:\n            pass\n"),
    ('c17_current_recorded_as_float', 'C17', M,
     "            self.time_variables['electric current'].append(\n                self.electric_current\n            )",
     "            self.time_variables['electric current'].append(\n                self.electric_current.value\n            )"),
    # ---- C18
    ('c18_snapshot_time_in_minutes', 'C18', P,
     "            max(target_time.to('sec').value, min(self.time).to('sec').value),",
     "            max(target_time.to('min').value, min(self.time).to('sec').value),"),
    ('c18_snapshot_target_not_kept_on_axis', 'C18', P,
     "        target_seconds = min(\n            max(target_time.to('sec').value, min(self.time).to('sec').value),\n            max(self.time).to('sec').value\n        )",
     "        target_seconds = target_time.to('sec').value"),
    ('c18_snapshot_nearest', 'C18', P,
     "                        y=[\n                            value.to(unit).value\n                            for value in element.time_variables[variable]\n                        ]\n                    )\n                    data.loc[element.name, f'{variable} ({unit})'] = \\",
     "                        y=[\n                            value.to(unit).value\n                            for value in element.time_variables[variable]\n                        ], kind='nearest'\n                    )\n                    data.loc[element.name, f'{variable} ({unit})'] = \\"),
    ('c18_export_swaps_torque_units', 'C18', 'gearpy/utils/export.py',
     "        'driving torque': driving_torque_unit,\n        'load torque': load_torque_unit,",
     "        'driving torque': load_torque_unit,\n        'load torque': driving_torque_unit,"),
    ('c18_export_drops_last_row', 'C18', 'gearpy/utils/export.py',
     "    data.to_csv(file_path, index=False)",
     "    data.iloc[:-1].to_csv(file_path, index=False)"),
    ('c18_snapshot_pwm_always', 'C18', P,
     "                if 'pwm' in variables:\n",
     "                if True:\n"),
    ('c18_snapshot_stress_nested', 'C18', P,
     "                        if element.bending_stress_is_computable:\n                            if 'bending stress' in variables:\n",
     "                        if element.bending_stress_is_computable and 'tangential force' in variables:\n                            if 'bending stress' in variables:\n"),
    ('c18_export_swallows_oserror', 'C18', 'gearpy/utils/export.py',
     "    data.to_csv(file_path, index=False)",
     "    try:\n        data.to_csv(file_path, index=False)\n    except OSError:\n        pass"),
    # ---- C13
    ('c13_negative_branch_removed', 'C13', S,
     "            (motor.pwm > 0 and motor.angular_speed < NULL_ANGULAR_SPEED) or\n            (motor.pwm < 0 and motor.angular_speed > NULL_ANGULAR_SPEED)\n",
     "            (motor.pwm > 0 and motor.angular_speed < NULL_ANGULAR_SPEED)\n"),
    ('c13_never_released', 'C13', S,
     "                self.__powertrain_is_locked = False\n\n    def _compute_locked",
     "                pass\n\n    def _compute_locked"),
    ('c13_self_locking_guard_dropped', 'C13', S,
     "        if self.__powertrain.self_locking and (\n",
     "        if (\n"),
    ('c13_acceleration_not_zeroed', 'C13', S,
     "            element.angular_speed = NULL_ANGULAR_SPEED\n            element.angular_acceleration = NULL_ANGULAR_ACCELERATION",
     "            element.angular_speed = NULL_ANGULAR_SPEED"),
    ('c13_release_on_any_positive_duty', 'C13', S,
     "            if (motor.torque > NULL_TORQUE and motor.pwm > 0) or \\",
     "            if (motor.pwm > 0) or \\"),
    ('c13_zero_duty_not_locking', 'C13', S,
     "            motor.pwm == 0 or\n",
     ""),
    # ---- C14
    ('c14_conflict_threshold', 'C14', 'gearpy/motor_control/pwm_control.py',
     "        if applied_rules >= 2:", "        if applied_rules > 2:"),
    ('c14_default_zero', 'C14', 'gearpy/motor_control/pwm_control.py',
     "        else:\n            pwm = 1\n", "        else:\n            pwm = 0\n"),
    ('c14_no_saturation', 'C14', 'gearpy/motor_control/pwm_control.py',
     "        return min(max(pwm, -1), 1)", "        return min(max(pwm, -0.999), 0.999)"),
    ('c14_first_rule_wins', 'C14', 'gearpy/motor_control/pwm_control.py',
     "        if applied_rules >= 2:\n            raise ValueError(\n                \"At least two rules are simultaneously applicable. Check PWM \"\n                \"rules conditions.\"\n            )\n        elif applied_rules == 1:",
     "        if applied_rules >= 1:"),
    ('c02_control_applied_after_torque', 'C02', S,
     "        self._compute_motor_control(motor_control=motor_control)\n        self._compute_driving_torque()\n",
     "        self._compute_driving_torque()\n        self._compute_motor_control(motor_control=motor_control)\n"),
    ('c14_control_skipped_at_first_instant', 'C14', S,
     "        if motor_control is not None:\n            motor_control.apply_rules()",
     "        if motor_control is not None and len(self.__powertrain.time) > 1:\n            motor_control.apply_rules()"),
    ('c14_rules_frozen_at_first_use', 'C14', 'gearpy/motor_control/pwm_control.py',
     "        pwm_values = [rule.apply() for rule in self.__rules]",
     "        if not hasattr(self, '_frozen'):\n            self._frozen = tuple(self.__rules)\n        pwm_values = [rule.apply() for rule in self._frozen]"),
    # ---- C15
    ('c15_timer_end_exclusive', 'C15', 'gearpy/sensors/timer.py',
     "            ((current_time - self.start_time) <= self.duration)",
     "            ((current_time - self.start_time) < self.duration)"),
    ('c15_static_error_subtracted', 'C15', 'gearpy/motor_control/rules/reach_angular_position.py',
     "            self.__braking_angle + regime_angular_position_error",
     "            self.__braking_angle - regime_angular_position_error"),
    ('c15_ramp_minus_dmin', 'C15', 'gearpy/motor_control/rules/start_proportional_to_angular_position.py',
     "                self.__target_angular_position + pwm_min",
     "                self.__target_angular_position - pwm_min"),
    ('c15_limit_current_i0_once', 'C15', 'gearpy/motor_control/rules/start_limit_current.py',
     "2*no_load_electric_current", "no_load_electric_current"),
    ('c15_efficiency_spur_only', 'C15', 'gearpy/motor_control/rules/utils.py',
     "        if isinstance(element, GearBase | WormGear):\n", "        if isinstance(element, GearBase) and not hasattr(element, 'helix_angle'):\n", 2),
    ('c15_reach_window_strict', 'C15', 'gearpy/motor_control/rules/reach_angular_position.py',
     "        if angular_position >= braking_starting_angle:",
     "        if angular_position >= braking_starting_angle + self.__braking_angle/10:"),
    # ---- C08
    ('c08_dead_zone_strict', 'C08', M,
     "        if abs(self.pwm) <= pwm_min:\n            self.driving_torque = Torque(0, unit=self.maximum_torque.unit)",
     "        if abs(self.pwm) < pwm_min:\n            self.driving_torque = Torque(0, unit=self.maximum_torque.unit)"),
    ('c08_negative_branch_sign', 'C08', M,
     "                    (self.pwm*self.maximum_electric_current +\n                        self.no_load_electric_current) /",
     "                    (self.pwm*self.maximum_electric_current -\n                        self.no_load_electric_current) /"),
    ('c08_denominator_imax', 'C08', M,
     "                    (self.pwm*self.maximum_electric_current -\n                        self.no_load_electric_current) /\n                    (self.maximum_electric_current -\n                        self.no_load_electric_current)",
     "                    (self.pwm*self.maximum_electric_current -\n                        self.no_load_electric_current) /\n                    (self.maximum_electric_current)"),
    ('c08_in_zone_current', 'C08', M,
     "                    self.pwm/pwm_min*self.no_load_electric_current.to(",
     "                    self.pwm*self.no_load_electric_current.to("),
    ('c08_zero_tmax_returns_zero_current', 'C08', M,
     "            self.electric_current = no_load_electric_current.to(\n                self.maximum_electric_current.unit\n            )\n            return",
     "            self.electric_current = Current(0, self.maximum_electric_current.unit)\n            return"),
    ('c08_no_current_motor_uses_pwm', 'C08', M,
     "                value=(1 - self.angular_speed /\n                       self.no_load_speed)*self.maximum_torque.value,",
     "                value=(self.pwm - self.angular_speed /\n                       self.no_load_speed)*self.maximum_torque.value,"),
    # ---- C10
    ('c10_ratio_inverted', 'C10', R,
     "    slave.master_gear_ratio = slave.n_teeth/master.n_teeth",
     "    slave.master_gear_ratio = master.n_teeth/slave.n_teeth"),
    ('c10_self_locking_sin', 'C10', R,
     "            friction_coefficient > master.pressure_angle.cos() *\n            master.helix_angle.tan()",
     "            friction_coefficient > master.pressure_angle.cos() *\n            master.helix_angle.sin()"),
    ('c10_self_locking_not_strict', 'C10', R,
     "        master.self_locking = bool(\n            friction_coefficient > master.pressure_angle.cos() *",
     "        master.self_locking = bool(\n            friction_coefficient >= master.pressure_angle.cos() *"),
    ('c10_numpy_bool_self_locking', 'C10', R,
     "        master.self_locking = bool(\n            friction_coefficient > master.pressure_angle.cos() *\n            master.helix_angle.tan()\n        )",
     "        master.self_locking = (\n            friction_coefficient > master.pressure_angle.cos() *\n            master.helix_angle.tan()\n        )"),
    ('c10_gear_links_before_module_check', 'C10', R,
     "    if master.module is not None and slave.module is not None:\n        if master.module != slave.module:",
     "    master.drives = slave\n    slave.driven_by = master\n    if master.module is not None and slave.module is not None:\n        if master.module != slave.module:"),
    ('c10_joint_ratio_from_teeth', 'C10', R,
     "    slave.master_gear_ratio = 1.0",
     "    slave.master_gear_ratio = slave.n_teeth/master.n_teeth if hasattr(slave, 'n_teeth') and hasattr(master, 'n_teeth') else 1.0"),
    ('c10_worm_validates_after_linking', 'C10', R,
     "    slave.master_gear_efficiency = efficiency\n\n    master.drives = slave\n    master.mating_role = MatingMaster\n    slave.driven_by = master\n    slave.mating_role = MatingSlave\n",
     "    master.drives = slave\n    master.mating_role = MatingMaster\n    slave.driven_by = master\n    slave.mating_role = MatingSlave\n    slave.master_gear_efficiency = efficiency\n"),
    ('c10_wheel_master_ratio_inverted', 'C10', R,
     "        slave.master_gear_ratio = slave.n_starts/master.n_teeth",
     "        slave.master_gear_ratio = master.n_teeth/slave.n_starts"),
    ('c10_helix_check_dropped', 'C10', R,
     "            if master.helix_angle != slave.helix_angle:",
     "            if False:"),
    ('c10_efficiency_upper_bound_dropped', 'C10', R,
     "    if efficiency > 1 or efficiency < 0:\n        raise ValueError(\"Parameter 'efficiency' must be within 0 and 1.\")",
     "    if efficiency < 0:\n        raise ValueError(\"Parameter 'efficiency' must be within 0 and 1.\")"),
    # ---- C20
    ('c20_walk_stops_at_flywheel', 'C20', P,
     "        while elements[-1].drives is not None:\n            elements.append(elements[-1].drives)",
     "        while elements[-1].drives is not None:\n            elements.append(elements[-1].drives)\n            if type(elements[-1]).__name__ == 'Flywheel' and len(elements) > 2:\n                break"),
    ('c20_duplicate_count', 'C20', P,
     "            if count > 1:\n                raise NameError(",
     "            if count > 2:\n                raise NameError("),
    ('c20_self_locking_any_worm', 'C20', P,
     "                if element.self_locking:\n                    self.__self_locking = True",
     "                if element.self_locking is not None:\n                    self.__self_locking = True"),
    ('c20_elements_list', 'C20', P,
     "        self.__elements = tuple(elements)", "        self.__elements = list(elements)"),
    ('c20_elements_live_walk', 'C20', P,
     "        return self.__elements\n",
     "        elements = [self.__elements[0]]\n        while elements[-1].drives is not None and len(elements) < 64:\n            elements.append(elements[-1].drives)\n        return tuple(elements)\n"),
    ('c20_self_locking_settable', 'C20', P,
     "        return self.__self_locking\n",
     "        return self.__self_locking\n\n    @self_locking.setter\n    def self_locking(self, value):\n        self.__self_locking = value\n"),
    # ---- C07
    ('c07_timer_raw_values', 'C07', 'gearpy/sensors/timer.py',
     "        return (current_time >= self.start_time) and \\\n            ((current_time - self.start_time) <= self.duration)",
     "        return (current_time.value >= self.start_time.value) and \\\n            ((current_time.value - self.start_time.value) <= self.duration.value)"),
    ('c07_motor_speed_ratio_raw', 'C07', M,
     "                value=(1 - self.angular_speed /\n                       self.no_load_speed)*self.maximum_torque.value,",
     "                value=(1 - self.angular_speed.value /\n                       self.no_load_speed.value)*self.maximum_torque.value,"),
    ('c07_rpm_factor', 'C07', 'gearpy/units/units.py',
     "'rpm': 2*pi/60,", "'rpm': 2*pi/6,"),
    ('c07_gcm2_factor', 'C07', 'gearpy/units/units.py',
     "'gcm^2': 1e-7,", "'gcm^2': 1e-6,"),
    ('c07_pressure_angle_exact_lookup', 'C07', 'gearpy/mechanical_objects/mechanical_object_base.py',
     "                WORM_GEAR_AND_WHEEL_AVAILABLE_PRESSURE_ANGLES.index(\n                    pressure_angle\n                ),",
     "                [a.value for a in WORM_GEAR_AND_WHEEL_AVAILABLE_PRESSURE_ANGLES].index(\n                    pressure_angle.to('deg').value\n                ),"),
    ('c07_stop_threshold_raw', 'C07', 'gearpy/utils/stop_condition/operator.py',
     "        return sensor_value >= threshold\n", "        return sensor_value.value >= threshold.value\n"),
    ('c07_reach_braking_angle_raw', 'C07', 'gearpy/motor_control/rules/utils.py',
     "            )*braking_angle.value,\n            unit=braking_angle.unit",
     "            )*braking_angle.value,\n            unit='rad'"),
    ('c07_length_dm_factor', 'C07', 'gearpy/units/units.py',
     "'dm': 1e-1,", "'dm': 1e-2,", 1),
    # ---- C09
    ('c09_master_uses_driving_torque', 'C09', 'gearpy/mechanical_objects/spur_gear.py',
     "        if self.mating_role == MatingMaster:\n            self.tangential_force = \\\n                abs(self.load_torque)/(self.reference_diameter/2)",
     "        if self.mating_role == MatingMaster:\n            self.tangential_force = \\\n                abs(self.driving_torque)/(self.reference_diameter/2)"),
    ('c09_lewis_nearest', 'C09', 'gearpy/mechanical_objects/mechanical_object_base.py',
     "    bounds_error=False\n)", "    bounds_error=False,\n    kind='nearest'\n)"),
    ('c09_cos_base_helix_not_squared', 'C09', 'gearpy/mechanical_objects/helical_gear.py',
     "n_teeth/(BASE_HELIX_ANGLE.cos())**2 / \\", "n_teeth/(BASE_HELIX_ANGLE.cos()) / \\"),
    ('c09_hertz_constant', 'C09', 'gearpy/mechanical_objects/spur_gear.py',
     "            value=0.262922*sqrt(", "            value=0.2629*sqrt("),
    ('c09_worm_effective_width', 'C09', 'gearpy/mechanical_objects/worm_wheel.py',
     "0.67*self.driven_by.reference_diameter", "0.76*self.driven_by.reference_diameter"),
    ('c09_lewis_table_row_edited', 'C09', 'gearpy/mechanical_objects/gear_data/lewis_factor_table.csv',
     "45,0.399", "45,0.390"),
    ('c09_worm_table_row_edited', 'C09', 'gearpy/mechanical_objects/gear_data/worm_gear_and_wheel_data.csv',
     "25,35,0.15", "25,35,0.155"),
    ('c09_contact_flag_ignores_modulus', 'C09', 'gearpy/mechanical_objects/mechanical_object_base.py',
     "            (self.__face_width is not None) and \\\n            (self.__elastic_modulus is not None)",
     "            (self.__face_width is not None)"),
    ('c09_missing_mate_modulus_uses_own', 'C09', 'gearpy/mechanical_objects/spur_gear.py',
     "            if self.driven_by.elastic_modulus is not None:\n                mate_elastic_modulus = self.driven_by.elastic_modulus\n            else:\n                raise ValueError(",
     "            if self.driven_by.elastic_modulus is not None:\n                mate_elastic_modulus = self.driven_by.elastic_modulus\n            elif True:\n                mate_elastic_modulus = self.elastic_modulus\n            else:\n                raise ValueError("),
    ('c09_helical_contact_no_cos_beta', 'C09', 'gearpy/mechanical_objects/helical_gear.py',
     "self.face_width/self.__helix_angle.cos()*inverse_curvature_sum", "self.face_width*inverse_curvature_sum"),
    # ---- C04
    ('c04_stale_torque', 'C04', S,
     "        self._compute_driving_torque()\n        self._compute_torque()\n        if not self.__powertrain_is_locked:\n            self._compute_angular_acceleration()\n",
     "        if not self.__powertrain_is_locked and self.__powertrain.elements[-1].torque is not None:\n            self._compute_angular_acceleration()\n        self._compute_driving_torque()\n        self._compute_torque()\n        if not self.__powertrain_is_locked and self.__powertrain.elements[-1].angular_acceleration is None:\n            self._compute_angular_acceleration()\n"),
    ('c04_dt_halved_in_speed_update', 'C04', S,
     "            self.__powertrain.elements[-1].angular_acceleration * \\\n            time_discretization\n",
     "            self.__powertrain.elements[-1].angular_acceleration * \\\n            (time_discretization/2)\n"),
    ('c04_load_sign_flipped_in_net_torque_of_last', 'C04', S,
     "            element.torque = element.driving_torque - element.load_torque",
     "            element.torque = element.driving_torque - element.load_torque*(1.02 if element is self.__powertrain.elements[-1] else 1)"),
    ('c04_position_uses_old_speed', 'C04', S,
     "        self.__powertrain.elements[-1].angular_speed += \\\n            self.__powertrain.elements[-1].angular_acceleration * \\\n            time_discretization\n        self.__powertrain.elements[-1].angular_position += \\\n            self.__powertrain.elements[-1].angular_speed*time_discretization",
     "        old_speed = self.__powertrain.elements[-1].angular_speed\n        self.__powertrain.elements[-1].angular_speed += \\\n            self.__powertrain.elements[-1].angular_acceleration * \\\n            time_discretization\n        self.__powertrain.elements[-1].angular_position += \\\n            (old_speed*3 - self.__powertrain.elements[-1].angular_speed*2)*time_discretization"),
    # ---- C19
    ('c19_surface_no_positivity_check', 'C19', 'gearpy/units/units.py',
     "@L2105:        if value <= 0:", "        if value < 0:"),
    ('c19_inertia_div_bypasses_constructor', 'C19', 'gearpy/units/units.py',
     "            return InertiaMoment(value=self.__value/other, unit=self.__unit)",
     "            result = InertiaMoment(value=1, unit=self.__unit)\n            result._InertiaMoment__value = self.__value/other\n            return result"),
    ('c19_length_inplace_conversion_to_zero', 'C19', 'gearpy/units/units.py',
     "@L1898:        if value <= 0:", "        if value <= 0 and unit != 'dm':"),
    ('c19_motor_no_load_speed_unchecked', 'C19', M,
     "        if no_load_speed.value <= 0:", "        if no_load_speed.value < 0:"),
    ('c19_teeth_minimum_off_by_one', 'C19', 'gearpy/mechanical_objects/mechanical_object_base.py',
     "        if n_teeth < MINIMUM_TEETH_NUMBER:", "        if n_teeth < MINIMUM_TEETH_NUMBER - 1:"),
    ('c19_helix_limit_strict', 'C19', 'gearpy/mechanical_objects/helical_gear.py',
     "        if helix_angle >= Angle(90, 'deg'):", "        if helix_angle > Angle(90, 'deg'):"),
    ('c19_pwm_upper_bound_dropped', 'C19', M,
     "        if (pwm > 1) or (pwm < -1):", "        if (pwm < -1):"),
    ('c19_current_order_unchecked', 'C19', M,
     "            if no_load_electric_current >= maximum_electric_current:",
     "            if no_load_electric_current > maximum_electric_current:"),
]


def apply(src_root, mut):
    mid, prop, rel, old, new = mut[:5]
    count = mut[5] if len(mut) > 5 else 1
    p = os.path.join(src_root, rel)
    with open(p) as f:
        s = f.read()
    if old.startswith('@L'):
        # line-addressed mutant: '@L<n>:<exact text of line n>'
        n, text = old[2:].split(':', 1)
        lines = s.split('\n')
        if lines[int(n) - 1] != text:
            raise RuntimeError(f'{mid}: line {n} of {rel} is '
                               f'{lines[int(n) - 1]!r}, expected {text!r}')
        lines[int(n) - 1] = new
        with open(p, 'w') as f:
            f.write('\n'.join(lines))
        return
    if s.count(old) != count:
        raise RuntimeError(f'{mid}: pattern occurs {s.count(old)}x in {rel}, '
                           f'expected {count}')
    with open(p, 'w') as f:
        f.write(s.replace(old, new))


def run_one(mut, n, tier='quick', extra_env=None):
    mid, prop = mut[0], mut[1]
    scratch = tempfile.mkdtemp(prefix='gpmut_', dir='/tmp')
    try:
        shutil.copytree('/repo/gearpy', os.path.join(scratch, 'gearpy'),
                        ignore=shutil.ignore_patterns('__pycache__'))
        apply(scratch, mut)
        env = dict(os.environ)
        env['PYTHONPATH'] = scratch + os.pathsep + ROOT
        env['GEARPY_SRC'] = scratch
        env['GPSIM_SHRINK_S'] = '10'
        env['GPSIM_OUT'] = os.path.join(scratch, 'out')
        env.update(extra_env or {})
        t0 = time.time()
        cmd = [sys.executable, '-m', 'gpsim.check', prop, '--tier', tier,
               '--no-evidence']
        if n:
            cmd += ['--n', str(n)]
        p = subprocess.run(cmd, cwd=ROOT, env=env, capture_output=True,
                           text=True, timeout=1500)
        viol = [ln for ln in p.stdout.splitlines() if ln.startswith('VIOLATION')]
        sigs = []
        for ln in viol:
            try:
                with open(ln.split('replay=')[1]) as f:
                    sigs.append(json.load(f)['signature'])
            except Exception:      # noqa
                pass
        return {'id': mid, 'property': prop, 'exit': p.returncode,
                'caught': p.returncode == 1 and bool(viol),
                'signatures': sigs, 'seconds': round(time.time() - t0, 1),
                'tail': (p.stdout + p.stderr)[-600:] if p.returncode != 1 else ''}
    finally:
        shutil.rmtree(scratch, ignore_errors=True)


def main(argv=None):
    ap = argparse.ArgumentParser()
    ap.add_argument('--only')
    ap.add_argument('--ids')
    ap.add_argument('--n', type=int, default=0)
    ap.add_argument('--write', action='store_true')
    a = ap.parse_args(argv)
    muts = CATALOGUE
    if a.only:
        muts = [m for m in muts if m[1] in a.only.split(',')]
    if a.ids:
        muts = [m for m in muts if m[0] in a.ids.split(',')]
    res = []
    for m in muts:
        try:
            r = run_one(m, a.n)
        except Exception as ex:      # noqa
            r = {'id': m[0], 'property': m[1], 'exit': None, 'caught': False,
                 'signatures': [], 'seconds': 0, 'tail': repr(ex)}
        res.append(r)
        print(f"{r['id']:34s} {r['property']} "
              f"{'CAUGHT' if r['caught'] else 'MISSED'} exit={r['exit']} "
              f"{r['seconds']}s {r['signatures'][:2]} {r['tail'][-300:]}",
              flush=True)
    if a.write:
        os.makedirs(os.path.join(ROOT, 'mutants'), exist_ok=True)
        with open(os.path.join(ROOT, 'mutants', 'RESULTS.md'), 'w') as f:
            f.write('# Mutation catalogue results (quick tier)\n\n')
            f.write('| mutant | property | caught | signatures | s |\n|---|---|---|---|---|\n')
            for r in res:
                f.write(f"| {r['id']} | {r['property']} | "
                        f"{'yes' if r['caught'] else 'NO'} | "
                        f"{', '.join(r['signatures'][:3])} | {r['seconds']} |\n")
            f.write(f"\ncaught {sum(r['caught'] for r in res)} of {len(res)}\n")
    return 0 if all(r['caught'] for r in res) else 1


if __name__ == '__main__':
    sys.exit(main())
