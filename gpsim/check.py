"""Runner:  python -m gpsim.check <id> --tier quick|thorough
            python -m gpsim.check <id> --replay <file>

exit 0  property held on everything explored (KNOWN-FINDING lines allowed)
exit 1  VIOLATION property=<id> replay=<path>   (a violation not listed in
        known_findings.json)
exit 2  harness error / vacuity guard / timeout (never reported as a pass)
"""
import argparse
import copy
import faulthandler
import hashlib
import importlib
import json
import multiprocessing
import os
import subprocess
import sys
import time
import traceback
from collections import Counter
from concurrent.futures import ProcessPoolExecutor, as_completed

ROOT = os.path.dirname(os.path.dirname(os.path.abspath(__file__)))
OUT = os.environ.get('GPSIM_OUT') or os.path.join(ROOT, 'out')
EVID = os.path.join(ROOT, 'evidence')
KNOWN = os.path.join(ROOT, 'known_findings.json')


def load_known(prop):
    if not os.path.exists(KNOWN):
        return []
    with open(KNOWN) as f:
        doc = json.load(f)
    return [x for x in doc.get('findings', [])
            if x.get('property') == prop and x.get('status') == 'known']


def oracle_of(name):
    return importlib.import_module('gpsim.oracles.' + name)


# ---------------------------------------------------------------------------
# generic per-scenario measurements (fault kinds that actually fired, shape,
# abstract states)

def measure(scn, H, stats):
    from .oracles import common
    m = Counter()
    sched = scn.get('schedule', [])
    prev_unit = None
    prev_epoch = None
    first_run = True
    n_inst = 0
    for rec in H.get('ops', []):
        op = sched[rec['i']]
        if rec['op'] == 'run':
            added = rec['n_after'] - rec['n_before']
            n_inst += max(0, added)
            fresh = rec['n_before'] == 0
            if rec['exc'] is None and op.get('stop') is not None and \
                    added < op['n'] + (1 if fresh else 0):
                m['F_STOP'] += 1
            if rec['exc'] is not None:
                if 'simultaneously applicable' in rec['exc'][1]:
                    m['F_CONFLICT'] += 1
                elif 'Impossible to compute contact stress' in rec['exc'][1]:
                    m['F_MISSINGDATA'] += 1
                else:
                    m['run_raised_other'] += 1
            if not first_run and op.get('solver') == 'new':
                m['F_RESTART'] += 1
            if not fresh and prev_epoch == rec['epoch'] and \
                    prev_unit is not None and op['dt'][1] != prev_unit:
                m['F_UNITSWITCH'] += 1
            if not fresh:
                m['continuations'] += 1
            prev_unit = op['dt'][1]
            prev_epoch = rec['epoch']
            first_run = False
        elif rec['op'] == 'reset' and rec['exc'] is None:
            m['F_RESET'] += 1
        elif rec['op'] == 'convert_live' and rec['exc'] is None:
            m['F_UNITSWITCH_LIVE'] += 1
        elif rec['op'] == 'redeclare' and rec['exc'] is None:
            m['F_REDECLARE'] += 1
        elif rec['op'] == 'set_pwm' and rec['exc'] is None:
            m['F_SETPWM'] += 1
        elif rec['op'] == 'set_pwm' and op.get('invalid'):
            m['F_BADPARAM_pwm_rejected'] += 1
        elif rec['op'] == 'set_load' and rec['exc'] is None:
            m['F_SETLOAD'] += 1
        elif rec['op'] == 'set_state' and rec['exc'] is None:
            m['F_SETSTATE'] += 1
        elif rec['op'] == 'branch_off' and rec['exc'] is None:
            m['F_BRANCH'] += 1
        elif rec['op'] == 'other_powertrain':
            m['F_OTHER_POWERTRAIN' if rec['exc'] is None
              else 'other_powertrain_raised'] += 1
        elif rec['op'] == 'export' and rec.get('io', {}).get('fired'):
            m['F_IO'] += 1
    for b in H.get('build', []):
        if b['ev'] == 'decl' and b['exc'] is not None:
            m['F_REJECT'] += 1
    if H.get('timeout'):
        m['scenario_timeouts'] += 1
    m['simulated_instants'] = n_inst
    sim_s = 0.0
    for rec in H.get('ops', []):
        if rec['op'] == 'reset' or rec is H['ops'][-1]:
            pass
    # simulated seconds: last time of every epoch
    last_by_epoch = {}
    for rec in H.get('ops', []):
        d = rec.get('dump')
        if d and d['time'] and rec['op'] == 'run':
            t = d['time'][-1]
            if t is not None and t == t and abs(t) < 1e300:
                last_by_epoch[rec['epoch']] = t
    sim_s = sum(last_by_epoch.values())
    kinds = tuple(e['kind'] for e in scn.get('elements', []))
    ops = tuple(o['op'] for o in sched)
    fired = tuple(sorted(k for k in list(m) + list(stats)
                         if k.startswith('F_') and (m.get(k) or stats.get(k))))
    return m, sim_s, (kinds, ops, fired)


def abstract_states(scn, H):
    """(held?, sgn pwm, sgn motor speed, sgn motor torque) states and
    transitions over the recorded instants."""
    states, trans = set(), set()
    sg = lambda x: 0 if (x is None or x == 0) else (1 if x > 0 else -1)  # noqa
    for rec in H.get('ops', []):
        d = rec.get('dump')
        if not d or rec['op'] != 'run' or not d['elems']:
            continue
        e0 = d['elems'][0]['tv']
        w = e0.get('angular speed', [])
        a = e0.get('angular acceleration', [])
        T = e0.get('torque', [])
        p = e0.get('pwm', [])
        n = min(len(w), len(a), len(T), len(p))
        prev = None
        for k in range(rec['n_before'], n):
            s = (w[k] == 0 and a[k] == 0, sg(p[k]), sg(w[k]), sg(T[k]))
            states.add(s)
            if prev is not None:
                trans.add((prev, s))
            prev = s
    return states, trans


def summarize(scn):
    """Compact, readable form of a scenario for evidence samples."""
    sched = []
    for o in scn.get('schedule', []):
        if o['op'] == 'run':
            sched.append(f"run {o['n']}x{o['dt'][0]:.4g}{o['dt'][1]}"
                         f"{' ctrl' if o.get('control') else ''}"
                         f"{' stop' if o.get('stop') is not None else ''}"
                         f"{' newsolver' if o.get('solver') == 'new' else ''}")
        else:
            sched.append(o['op'])
    return {'seed': scn.get('seed'), 'profile': scn.get('profile'),
            'chain': [e['kind'] for e in scn.get('elements', [])],
            'decls': [d['op'] for d in scn.get('decls', [])],
            'load': [t['t'] for t in (scn.get('load') or {}).get('terms', [])],
            'rules': [r['kind'] for r in scn.get('rules', [])],
            'stops': [s['sensor'] + ':' + s['op'] for s in scn.get('stops', [])],
            'schedule': sched}


# ---------------------------------------------------------------------------
# worker

def run_scenario(spec, scn):
    """Execute + judge one scenario (also used by replay and the shrinker)."""
    from . import execu
    ora = oracle_of(spec['oracle'])
    if getattr(ora, 'NO_POWERTRAIN', False):
        return ora.run(scn, None, execu)
    H = execu.execute(scn)
    if hasattr(ora, 'run'):
        # oracles that need several executions (differentials) own the loop
        return ora.run(scn, H, execu)
    vs, st = ora.check(scn, H)
    # later phases (same objects re-mated / re-routed, new powertrain)
    cur_scn, cur_H = scn, H
    while cur_H.get('next') is not None and cur_scn.get('next'):
        from .execu import next_phase
        cur_scn, cur_H = next_phase(cur_scn), cur_H['next']
        vs2, st2 = ora.check(cur_scn, cur_H)
        vs = vs + vs2
        st.update(st2)
        st['later_phases'] += 1
    return H, vs, st


def work(job):
    prop, spec, profile, seeds, cfg, sample_every = job
    faulthandler.dump_traceback_later(1500, exit=True)
    try:      # a runaway time axis must fail fast instead of eating the box
        import resource
        lim = int(os.environ.get('GPSIM_AS_GB', '6')) << 30
        resource.setrlimit(resource.RLIMIT_AS, (lim, lim))
    except Exception:      # noqa
        pass
    import warnings
    warnings.filterwarnings('ignore')
    from . import gen, execu
    execu.gp()
    ora = oracle_of(spec['oracle'])
    agg = Counter()
    viols = []
    shapes = {}
    states, trans = set(), set()
    samples = []
    sim_s = 0.0
    det = [0, 0]
    errors = []
    t_cpu = time.time()
    for seed in seeds:
        try:
            scn = gen.gen(seed, profile, cfg)
            H, vs, st = run_scenario(spec, scn)
            m, s, shape = measure(H.get('_measured_scn', scn), H, st)
            sim_s += s
            agg.update(st)
            agg.update(m)
            agg['evaluations'] += 1
            if scn.get('np_inputs'):
                agg['F_NUMPY_TYPED_INPUTS'] += 1
            nontriv = ora.nontrivial(st) if hasattr(ora, 'nontrivial') \
                else st.get('instants', 0) > 0
            patt = ora.pattern(scn, H, st) if hasattr(ora, 'pattern') else ''
            key = hashlib.sha1(repr((shape, patt)).encode()).hexdigest()[:12]
            shapes[key] = shapes.get(key, False) or bool(nontriv)
            if nontriv and len(samples) < 2:
                samples.append(summarize(scn))
            ss, tt = abstract_states(scn, H)
            states |= ss
            trans |= tt
            for v in vs:
                viols.append({'seed': seed, 'profile': profile,
                              'signature': v.sig, 'detail': v.detail,
                              'size': len(json.dumps(scn)), 'cfg': cfg})
            if sample_every and seed % sample_every == 0:
                H2 = execu.execute(H.get('_measured_scn', scn))
                det[0] += 1
                if execu.digest(H2) != execu.digest(H):
                    det[1] += 1
                    # same scenario, same process, another history: the
                    # library kept state from an earlier execution.  Judge
                    # the repetition with the property's own oracle: such a
                    # violation replays as "execute twice, judge the second"
                    try:
                        _, vs2, _ = run_scenario(spec, copy.deepcopy(scn))
                        for v in vs2:
                            viols.append({'seed': seed, 'profile': profile,
                                          'signature': v.sig,
                                          'detail': v.detail,
                                          'size': len(json.dumps(scn)),
                                          'cfg': cfg, 'repeat': 2})
                    except Exception:      # noqa
                        pass
        except Exception:      # noqa   harness error, never a verdict
            errors.append({'seed': seed, 'profile': profile,
                           'trace': traceback.format_exc()[-1500:]})
    faulthandler.cancel_dump_traceback_later()
    return {'agg': agg, 'viols': viols[:200], 'n_viols': len(viols),
            'shapes': shapes, 'states': states, 'trans': trans,
            'samples': samples, 'sim_s': sim_s, 'det': det, 'errors': errors,
            'cpu': time.time() - t_cpu}


# ---------------------------------------------------------------------------

def write_replay(prop, spec, viol, cfg):
    from . import gen, shrink
    scn = gen.gen(viol['seed'], viol['profile'], cfg)
    sig = viol['signature']
    if viol.get('repeat'):
        # not minimised: every candidate execution would change the state of
        # this process; the fresh-interpreter verification decides
        os.makedirs(os.path.join(OUT, 'replays', prop), exist_ok=True)
        h = hashlib.sha1(sig.encode()).hexdigest()[:8]
        path = os.path.join(OUT, 'replays', prop,
                            f"{viol['seed']}_{h}_x{viol['repeat']}.json")
        with open(path, 'w') as f:
            json.dump({'property': prop, 'signature': sig,
                       'seed': viol['seed'], 'profile': viol['profile'],
                       'oracle': spec['oracle'], 'violation': viol['detail'],
                       'repeat': viol['repeat'],
                       'note': 'execute the scenario this many times in one '
                               'process and judge the last execution',
                       'shrink': {'steps': [], 'executions': 0},
                       'original_size': viol['size'],
                       'minimised_size': viol['size'],
                       'scenario': scn}, f, indent=1, default=str)
        return path, None

    def test(c):
        _, vs, _ = run_scenario(spec, c)
        return {v.sig for v in vs}
    if sig not in test(scn):
        return None, 'violation did not reproduce in the parent process'
    small, log = shrink.shrink(scn, sig, test,
                               budget_s=float(os.environ.get('GPSIM_SHRINK_S', 45)))
    _, vs, _ = run_scenario(spec, small)
    detail = next((v.detail for v in vs if v.sig == sig), viol['detail'])
    os.makedirs(os.path.join(OUT, 'replays', prop), exist_ok=True)
    h = hashlib.sha1(sig.encode()).hexdigest()[:8]
    path = os.path.join(OUT, 'replays', prop, f"{viol['seed']}_{h}.json")
    with open(path, 'w') as f:
        json.dump({'property': prop, 'signature': sig, 'seed': viol['seed'],
                   'profile': viol['profile'], 'oracle': spec['oracle'],
                   'violation': detail, 'shrink': log,
                   'original_size': viol['size'],
                   'minimised_size': len(json.dumps(small)),
                   'scenario': small}, f, indent=1, default=str)
    return path, None


def verify_replay(prop, path, sig):
    """Replay in a fresh interpreter; must report the same signature."""
    env = dict(os.environ)
    env['PYTHONHASHSEED'] = '0'
    p = subprocess.run([sys.executable, '-m', 'gpsim.check', prop,
                        '--replay', path, '--print-signatures'],
                       cwd=ROOT, env=env, capture_output=True, text=True,
                       timeout=300)
    return f'SIGNATURE {sig}' in p.stdout, p.stdout[-2000:] + p.stderr[-2000:]


def replay(prop, spec, path, print_sigs):
    with open(path) as f:
        doc = json.load(f)
    scn = doc['scenario']
    from . import execu
    execu.gp()
    for _ in range(int(doc.get('repeat', 1)) - 1):
        # the witness needs the same scenario executed before in this very
        # process (the library leaves state behind): judge the last one
        run_scenario(spec, copy.deepcopy(scn))
    _, vs, st = run_scenario(spec, scn)
    known = {k['signature'] for k in load_known(prop)}
    bad = [v for v in vs if v.sig not in known]
    for v in vs:
        if print_sigs:
            print(f'SIGNATURE {v.sig}')
        print(json.dumps(v.as_dict(), default=str)[:2000])
    for v in vs:
        if v.sig in known:
            print(f'KNOWN-FINDING: property={prop} {v.sig}')
    if bad:
        print(f'VIOLATION property={prop} replay={path}')
        return 1
    print(f'replay: no unlisted violation of {prop}')
    return 0


def main(argv=None):
    from .props import REG
    ap = argparse.ArgumentParser()
    ap.add_argument('prop')
    ap.add_argument('--tier', default=os.environ.get('VERIF_TIER', 'quick'))
    ap.add_argument('--replay')
    ap.add_argument('--print-signatures', action='store_true')
    ap.add_argument('--n', type=int)
    ap.add_argument('--jobs', type=int,
                    default=int(os.environ.get('GPSIM_JOBS', 0)) or
                    min(16, os.cpu_count() or 1))
    ap.add_argument('--no-evidence', action='store_true')
    a = ap.parse_args(argv)
    prop = a.prop
    if prop not in REG:
        print(f'unknown property {prop}')
        return 2
    spec = REG[prop]
    if a.replay:
        return replay(prop, spec, a.replay, a.print_signatures)
    tier = 'thorough' if a.tier == 'thorough' else 'quick'
    t0 = time.time()
    base_seed = int(os.environ.get('VERIF_SEED', '0') or 0)
    n_total = a.n or spec[tier]
    from . import execu
    execu.gp()          # import once, fork afterwards
    jobs = []
    tot_w = sum(w for _, w, _ in spec['profiles'])
    start = base_seed * 10_000_000
    for pi, (profile, w, cfg) in enumerate(spec['profiles']):
        n = max(1, int(round(n_total * w / tot_w)))
        cfg = dict(cfg or {})
        cfg.update(spec.get(tier + '_cfg', {}))
        seeds = list(range(start + pi * 1_000_000,
                           start + pi * 1_000_000 + n))
        chunk = max(5, min(200, n // (a.jobs * 6) or 5))
        for i in range(0, n, chunk):
            jobs.append((prop, spec, profile, seeds[i:i + chunk], cfg,
                         spec.get('digest_sample_every', 50)))
    # interleave the profiles: a run stopped at its wall budget has explored
    # every profile in proportion
    jobs.sort(key=lambda j: j[3][0] % 1_000_000)
    agg = Counter()
    viols = []
    shapes = {}
    states, trans = set(), set()
    samples = []
    sim_s = 0.0
    det = [0, 0]
    errors = []
    n_viols = 0
    cpu = 0.0
    budget = float(os.environ.get('GPSIM_BUDGET_S', spec.get(tier + '_budget_s',
                   500 if tier == 'quick' else 2900)))
    ctx = multiprocessing.get_context('fork')
    stopped_early = False
    budget_hit = False
    collected = set()

    def collect(fu):
        nonlocal n_viols, sim_s, cpu
        collected.add(fu)
        r = fu.result()
        agg.update(r['agg'])
        viols.extend(r['viols'])
        n_viols += r['n_viols']
        for k, nt in r['shapes'].items():
            shapes[k] = shapes.get(k, False) or nt
        states.update(r['states'])
        trans.update(r['trans'])
        if len(samples) < 4:
            samples.extend(r['samples'])
        sim_s += r['sim_s']
        det[0] += r['det'][0]
        det[1] += r['det'][1]
        errors.extend(r['errors'])
        cpu += r['cpu']

    import concurrent.futures as _cf
    with ProcessPoolExecutor(max_workers=a.jobs, mp_context=ctx) as ex:
        futs = [ex.submit(work, j) for j in jobs]
        try:
            try:
                for fu in as_completed(futs, timeout=budget):
                    collect(fu)
            except _cf.TimeoutError:
                # the wall budget of the tier is a soft stop (a loaded
                # machine explores less, it does not fail): nothing new is
                # started, chunks already running are given time to finish,
                # the verdict covers what was explored
                budget_hit = True
                for fu in futs:
                    fu.cancel()
                running = [f for f in futs if not f.cancelled()
                           and f not in collected]
                done, not_done = _cf.wait(running, timeout=180)
                for fu in done:
                    collect(fu)
                agg['chunks_abandoned_at_budget'] += len(not_done)
                for p in list(getattr(ex, '_processes', {}).values()):
                    try:
                        p.kill()
                    except Exception:      # noqa
                        pass
        except Exception as e:      # noqa  a dead worker
            stopped_early = True
            errors.append({'seed': None, 'trace': f'pool: {e!r}'})
            for fu in futs:
                fu.cancel()
            for p in list(getattr(ex, '_processes', {}).values()):
                try:
                    p.kill()
                except Exception:      # noqa
                    pass
    if budget_hit:
        agg['budget_exhausted'] += 1
    wall = time.time() - t0

    # -- verdicts
    known = load_known(prop)
    known_sigs = {k['signature']: k for k in known}
    by_sig = {}
    for v in viols:
        cur = by_sig.get(v['signature'])
        if cur is None or (v['size'], v['seed']) < (cur['size'], cur['seed']):
            by_sig[v['signature']] = v
    sig_counts = Counter(v['signature'] for v in viols)
    unknown = [s for s in by_sig if s not in known_sigs]
    status = 0
    lines = []
    replays = []
    for s in sorted(unknown)[:int(os.environ.get('GPSIM_MAX_REPLAYS', 3))]:
        # a witness must reproduce from its scenario document alone, in a
        # fresh interpreter.  A violation observed in a worker may instead
        # depend on state that an EARLIER scenario left in the process (a
        # library that corrupts a module-level object): such a candidate does
        # not replay, so the next smallest ones of the same signature are
        # tried before giving up
        def uniq(vs_):
            got, out_ = set(), []
            for v_ in sorted(vs_, key=lambda v: (v['size'], v['seed'])):
                if v_['seed'] not in got:
                    got.add(v_['seed'])
                    out_.append(v_)
            return out_
        cands = uniq(v for v in viols if v['signature'] == s
                     and not v.get('repeat'))[:4] + \
            uniq(v for v in viols if v['signature'] == s
                 and v.get('repeat'))[:4]
        tried = []
        for cand in cands:
            # (the generator configuration of the job that produced it: a
            # profile may be registered twice with different configurations)
            path, err = write_replay(prop, spec, cand, cand.get('cfg') or {})
            if path is None:
                tried.append({'seed': cand['seed'], 'trace': err})
                continue
            ok, outp = verify_replay(prop, path, s)
            if not ok:
                tried.append({'seed': cand['seed'],
                              'trace': 'replay did not reproduce: ' + outp})
                continue
            replays.append(path)
            lines.append(f'VIOLATION property={prop} replay={path}')
            status = 1
            if tried:
                agg['witnesses_that_needed_earlier_scenarios'] += len(tried)
            break
        else:
            errors.extend(tried[:2])
    if unknown and not replays and not errors:
        errors.append({'seed': None, 'trace': 'violations without replay'})
    for k in known:
        lines.append(f"KNOWN-FINDING: property={prop} {k['signature']} :: "
                     f"{k.get('what', '')} (observed {sig_counts.get(k['signature'], 0)}x in this run)")

    # -- vacuity guard
    vac = [p for p in spec.get('vacuity', []) if not agg.get(p)]
    if det[1]:
        errors.append({'seed': None,
                       'trace': f'{det[1]} digest mismatches on re-execution'})
    if status == 0 and (errors or vac or stopped_early):
        status = 2

    distinct_nontrivial = sum(1 for nt in shapes.values() if nt)
    faults = {k: v for k, v in sorted(agg.items()) if k.startswith('F_')}
    probes = {k: v for k, v in sorted(agg.items())
              if not k.startswith('F_') and k not in
              ('evaluations', 'simulated_instants')}
    ev = {
        'property_id': prop, 'tier': tier, 'seed': base_seed,
        'level': 'exploration',
        'coverage': {
            'evaluations': int(agg.get('evaluations', 0)),
            'distinct_nontrivial': int(distinct_nontrivial),
            'rule': spec['rule'],
            'samples': samples[:4],
            'profiles': [[p, w] for p, w, _ in spec['profiles']],
            'seed_ranges': [[j[3][0], j[3][-1]] for j in jobs][:1] +
                           [[jobs[-1][3][0], jobs[-1][3][-1]]] if jobs else [],
            'distinct_shapes': len(shapes),
            'simulated_instants': int(agg.get('simulated_instants', 0)),
            'simulated_seconds': sim_s,
            'runs_per_hour': agg.get('evaluations', 0) / wall * 3600 if wall else 0,
            'cpu_seconds': cpu,
            'faults_fired': faults,
            'probes': probes,
            'abstract_states': len(states),
            'abstract_transitions': len(trans),
            'abstract_state_measure': '(held, sgn duty, sgn motor speed, sgn motor net torque) per recorded instant',
            'violation_signatures': dict(sig_counts),
            'known_findings_observed': {s: c for s, c in sig_counts.items()
                                        if s in known_sigs},
            'replays': replays,
            'vacuity_probes_required': spec.get('vacuity', []),
            'vacuity_probes_missing': vac,
            'components': {
                'real': ['gearpy (all modules, from /repo working tree)',
                         'numpy', 'scipy', 'pandas'],
                'stub': spec.get('stubs', ['external load function (parametric family)',
                                           'ScriptedRule (RuleBase subclass)',
                                           'RecordingRule wrapper around real rules'])},
            'determinism_sample': {'reexecuted': det[0],
                                   'digest_mismatches': det[1]},
            'fault_kinds_not_present_in_target': [
                'network loss/duplication/reordering', 'partition',
                'clock skew', 'crash/restart with durable state',
                'allocation failure', 'thread interleaving'],
            'harness_errors': errors[:5],
        },
        'assumptions': spec.get('assumptions', [
            'reference model of DESIGN.md App. A (written from the documentation)',
            'IEEE-754 double arithmetic',
            'near-threshold discrete decisions are undecided (DESIGN 4.4)']),
        'wall_s': wall,
        'violations': int(len(unknown)),
    }
    if not a.no_evidence:
        os.makedirs(EVID, exist_ok=True)
        with open(os.path.join(EVID, f'{prop}.json'), 'w') as f:
            json.dump(ev, f, indent=1, default=str)
    print(f"{prop} {tier}: {ev['coverage']['evaluations']} scenarios, "
          f"{ev['coverage']['simulated_instants']} instants, "
          f"{distinct_nontrivial} distinct non-trivial shapes, "
          f"{len(unknown)} unlisted violation signatures, "
          f"{sum(sig_counts[s] for s in known_sigs if s in sig_counts)} "
          f"known-finding hits, {wall:.1f}s"
          + (f" (stopped at the wall budget of {budget:.0f}s: "
             f"{ev['coverage']['evaluations']} of {n_total} requested "
             f"scenarios explored)" if budget_hit else ''))
    for ln in lines:
        print(ln)
    if vac:
        print(f'HARNESS-ERROR: workload does not reach the property: '
              f'probes at zero: {vac}')
    for e in errors[:5]:
        print('HARNESS-ERROR:', json.dumps(e)[:1500])
    return status


if __name__ == '__main__':
    sys.exit(main())
