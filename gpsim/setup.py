"""setup_cmd: nothing to compile; verify the interpreter, gearpy's origin and
the scratch directories."""
import os
import sys


def main():
    here = os.path.dirname(os.path.dirname(os.path.abspath(__file__)))
    for d in ('out', 'evidence', '.work'):
        os.makedirs(os.path.join(here, d), exist_ok=True)
    from . import execu
    g = execu.gp()
    import numpy, scipy, pandas      # noqa
    print('gearpy from', os.path.dirname(g.__file__))
    print('python', sys.version.split()[0], 'numpy', numpy.__version__,
          'pandas', pandas.__version__, 'scipy', scipy.__version__)
    return 0


if __name__ == '__main__':
    sys.exit(main())
