"""Writes seeded/README.md and seeded/<id>/meta.json from the agents' notes
and the evaluation results."""
import glob
import json
import os

ROOT = os.path.dirname(os.path.dirname(os.path.abspath(__file__)))


def main():
    rows = []
    for d in sorted(glob.glob(os.path.join(ROOT, 'seeded', '*_*'))):
        sid = os.path.basename(d)
        notes = {}
        if os.path.exists(os.path.join(d, 'notes.json')):
            try:
                notes = json.load(open(os.path.join(d, 'notes.json')))
            except Exception:      # noqa
                notes = {}
        ev = {}
        if os.path.exists(os.path.join(d, 'evaluation.json')):
            ev = json.load(open(os.path.join(d, 'evaluation.json')))
        tests = ''
        if os.path.exists(os.path.join(d, 'tests.txt')):
            tests = open(os.path.join(d, 'tests.txt')).read().strip()
        extra = {}
        if os.path.exists(os.path.join(d, 'verdict.json')):
            extra = json.load(open(os.path.join(d, 'verdict.json')))
        caught = {c['property']: [s['signature'] for s in c['signatures']]
                  for c in ev.get('checks', []) if c['exit'] == 1}
        cross = {}
        pa = os.path.join(d, 'evaluation_all.json')
        if os.path.exists(pa):
            ea = json.load(open(pa))
            cross = {c['property']: c['exit'] for c in ea.get('checks', [])}
        meta = {
            'id': sid,
            'property': notes.get('property', sid.split('_')[0]),
            'files_changed': notes.get('files_changed'),
            'what_changed': notes.get('what_changed'),
            'needs_to_manifest': notes.get('needs_to_manifest'),
            'agent_tests_run': notes.get('tests_run'),
            'confirmed_by_me': {
                'full_suite_on_patched_copy': tests,
                'demo_exit_with_patch': (ev.get('demo_patched') or [None])[0],
                'demo_exit_without_patch': (ev.get('demo_unpatched') or [None])[0],
                'commands': [
                    f'python -m gpsim.seeded tests seeded/{sid}',
                    f'python -m gpsim.seeded eval seeded/{sid} --props <ids>'],
            },
            'caught_by': caught,
            'cross_matrix_quick_n3000': {
                'caught_by': sorted(k for k, v in cross.items() if v == 1),
                'clean': sorted(k for k, v in cross.items() if v == 0),
                'harness_error': sorted(k for k, v in cross.items() if v not in (0, 1)),
                'note': 'every quick check with --n 3000 against this change, at the commit current when it was run (some checks were strengthened later)'} if cross else None,
            'first_version_of_the_check_caught_it': extra.get('first_try', True),
            'strengthening': extra.get('strengthening', ''),
        }
        with open(os.path.join(d, 'meta.json'), 'w') as f:
            json.dump(meta, f, indent=1)
        rows.append(meta)
    with open(os.path.join(ROOT, 'seeded', 'README.md'), 'w') as f:
        f.write('# Seeded changes written by independent sub-agents\n\n'
                'Each sub-agent saw only the text of one property (id, title, '
                'statement, quantifier) and its own scratch worktree of the '
                'repository - nothing from /verif.  A change is kept only after '
                'I confirmed, on a scratch copy: the patch applies, the whole '
                'existing suite passes with it, the demonstration exits 1 with '
                'it and 0 without it.  Evaluation: `python -m gpsim.seeded eval '
                '<dir>` runs the quick checks against a patched scratch copy '
                '(`GEARPY_SRC`).\n\n'
                '| id | property | change | needs to manifest | suite with patch | caught by (signatures) | first version caught it |\n'
                '|---|---|---|---|---|---|---|\n')
        for m in rows:
            cb = '; '.join(f"{k}: {', '.join(v[:2])}" for k, v in m['caught_by'].items()) or 'NOT CAUGHT'
            x = m.get('cross_matrix_quick_n3000')
            if x:
                cb += ' [all checks at n=3000: ' + ','.join(x['caught_by']) + ']'
            f.write(f"| {m['id']} | {m['property']} | {(m['what_changed'] or '')[:220]} | "
                    f"{(m['needs_to_manifest'] or '')[:220]} | "
                    f"{m['confirmed_by_me']['full_suite_on_patched_copy']} | {cb} | "
                    f"{'yes' if m['first_version_of_the_check_caught_it'] else 'no: ' + m['strengthening']} |\n")
    print('wrote', len(rows))


if __name__ == '__main__':
    main()
