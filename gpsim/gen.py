"""Seeded scenario generator (swarm style).

gen(seed, profile, tier) draws everything from ONE random.Random(seed) and
returns a scenario document; executing a scenario never consults a PRNG.
"""
import math
import random
from math import pi, cos, tan

from . import si
from . import refmodel as rm

HOUSE = {
    'InertiaMoment': 'kgm^2', 'AngularSpeed': 'rpm', 'Torque': 'Nm',
    'Current': 'A', 'Length': 'mm', 'Stress': 'GPa', 'Angle': 'deg',
    'AngularPosition': 'rad', 'Time': 'sec', 'TimeInterval': 'sec',
    'AngularAcceleration': 'rad/s^2', 'Force': 'N',
}


# kinds whose literals are sometimes written as whole numbers (not the ones
# tied to another literal by an equality: module, helix and pressure angle)
INT_KINDS = ('InertiaMoment', 'Torque', 'AngularSpeed', 'Current', 'Stress',
             'AngularPosition', 'Time', 'TimeInterval')


class G:
    def __init__(self, seed, cfg=None):
        self.rng = random.Random(seed)
        self.seed = seed
        self.cfg = cfg or {}
        self.p_unit = self.rng.choice([0.0, 0.3, 0.7, 1.0])
        if self.cfg.get('house'):
            self.p_unit = 0.0

    # -- primitives
    def logu(self, lo, hi):
        return math.exp(self.rng.uniform(math.log(lo), math.log(hi)))

    def chance(self, p):
        return self.rng.random() < p

    def unit(self, kind):
        if self.chance(self.p_unit):
            return self.rng.choice(si.units_of(kind))
        return HOUSE[kind]

    def q(self, kind, si_value, unit=None):
        u = unit or self.unit(kind)
        v = si_value / si.factor(kind, u)
        if kind in INT_KINDS and abs(v) >= 10 and abs(v) < 1e15 and \
                self.chance(0.04):
            # the user writes a round number: a Python int, not a float
            v = int(round(v))
        return [v, u]

    # -- elements
    def motor(self, name, current=None):
        r = self.rng
        w0 = self.logu(50, 1500)
        Tmax = self.logu(1e-3, 5)
        J = self.logu(1e-8, 1e-4)
        e = {'kind': 'DCMotor', 'name': name, 'J': self.q('InertiaMoment', J),
             'w0': self.q('AngularSpeed', w0), 'Tmax': self.q('Torque', Tmax),
             'i0': None, 'imax': None}
        if current is None:
            current = self.chance(0.6)
        if current:
            i0 = self.logu(1e-3, 0.5)
            if self.chance(0.05):
                i0 = 0.0
            imax = max(i0, 1e-3) * r.uniform(3, 30)
            cu = self.unit('Current')
            e['i0'] = self.q('Current', i0, cu if self.chance(0.5) else None)
            e['imax'] = self.q('Current', imax, cu if self.chance(0.5) else None)
        return e

    def inertia(self):
        return self.q('InertiaMoment', self.logu(1e-9, 1e-3))

    def teeth(self):
        r = self.rng
        if self.chance(0.1):
            return r.randint(100, 600)
        return r.randint(10, 120)

    def optional_gear_data(self, level=None):
        """module / face width / elastic modulus (SI) for one mating."""
        r = self.rng
        m = r.choice([0.3, 0.5, 0.8, 1, 1.25, 1.5, 2, 2.5, 3, 4, 5]) * 1e-3
        return m


def worm_f_range(alpha, beta, worm_master):
    """(thr, fmax): self-locking threshold and the largest friction that keeps
    the documented efficiency inside [0, 1]."""
    thr = cos(alpha) * tan(beta)
    if worm_master:
        fmax = min(1.0, cos(alpha) / tan(beta))
    else:
        fmax = min(1.0, thr)
    return thr, fmax


# ---------------------------------------------------------------------------
# chain generation

def gen_chain(g, n_target=None, force_worm=None, self_locking=None,
              data_level=None, allow_wheel_master=True, allow_reroute=False):
    """elements, decls of a valid chain: motor -joint-> ... -> last gear.

    data_level: None = random subsets of optional data, 0 = bare gears,
    2 = full data everywhere.
    """
    r = g.rng
    if n_target is None:
        n_target = r.choice([2, 3, 3, 4, 4, 5, 6, 7, 8, 10, 12])
    els = [g.motor('e0_motor')]
    decls = []
    worm_done = 0
    worm_max = 2 if g.chance(0.3) else 1
    want_worm = force_worm if force_worm is not None else g.chance(0.35)

    def add(e):
        e['name'] = f"e{len(els)}_{e['kind'].lower()[:5]}"
        els.append(e)
        return len(els) - 1

    def subset(full=('m', 'b', 'E'), like=None):
        """which optional data a gear gets (like: the mate's subset)."""
        if data_level == 0:
            return set()
        if data_level == 2:
            return set(full)
        if like is not None and g.chance(0.75):
            return set(like) & set(full)
        c = r.random()
        if c < 0.3:
            return set()
        if c < 0.6:
            return set(full)
        # nested prefixes are the interesting ones, but try every subset
        if c < 0.85:
            k = r.randint(1, len(full))
            return set(full[:k])
        return {x for x in full if g.chance(0.5)}

    def gear_pair(kind, prev):
        """prev -joint-> A -mating-> B   (A, B of `kind`)."""
        m_si = g.optional_gear_data()
        beta = None
        if kind == 'HelicalGear':
            beta_si = r.uniform(3, 45) * pi / 180
            beta_q = g.q('Angle', beta_si)
        out = []
        sub = None
        same_teeth = g.teeth() if g.chance(0.08) else None
        for _ in range(2):
            sub = subset(like=sub)
            e = {'kind': kind, 'z': same_teeth or g.teeth(), 'J': g.inertia(),
                 'm': g.q('Length', m_si) if 'm' in sub else None,
                 'b': g.q('Length', r.uniform(2e-3, 40e-3)) if 'b' in sub else None,
                 'E': g.q('Stress', g.logu(1e9, 2.1e11)) if 'E' in sub else None}
            if kind == 'HelicalGear':
                # mated helical gears share one literal: gearpy compares
                # the two angles with an absolute band in the left unit
                e['beta'] = list(beta_q)
            out.append(e)
        return out

    prev = 0
    while len(els) < n_target:
        left = n_target - len(els)
        opts = ['fly']
        if left >= 2:
            opts += ['spur', 'spur', 'helical']
            if want_worm and worm_done < worm_max:
                opts += ['worm', 'worm', 'worm']
        if left == 1:
            opts = ['fly', 'lone']
        # the last element must be a gear able to carry the load
        c = r.choice(opts)
        if left == 1 and c == 'fly':
            c = 'lone'
        if left == 2 and c == 'fly' and g.chance(0.5):
            c = 'spur'
        if c == 'fly':
            i = add({'kind': 'Flywheel', 'J': g.inertia()})
            decls.append({'op': 'joint', 'm': prev, 's': i})
            prev = i
        elif c == 'lone':
            kind = r.choice(['SpurGear', 'SpurGear', 'HelicalGear'])
            e = {'kind': kind, 'z': g.teeth(), 'J': g.inertia(), 'm': None,
                 'b': None, 'E': None}
            if kind == 'HelicalGear':
                e['beta'] = g.q('Angle', r.uniform(3, 45) * pi / 180)
            i = add(e)
            decls.append({'op': 'joint', 'm': prev, 's': i})
            prev = i
        elif c in ('spur', 'helical'):
            kind = 'SpurGear' if c == 'spur' else 'HelicalGear'
            a, b = gear_pair(kind, prev)
            ia = add(a)
            decls.append({'op': 'joint', 'm': prev, 's': ia})
            ib = add(b)
            eff = r.choice([1, 1.0, round(r.uniform(0.5, 1.0), 3),
                            round(r.uniform(0.8, 0.99), 2)])
            decls.append({'op': 'gear', 'm': ia, 's': ib, 'eff': eff})
            prev = ib
            # idler: a third gear mating directly with B
            if len(els) < n_target and g.chance(0.15):
                e = dict(b)
                e['z'] = g.teeth()
                e['J'] = g.inertia()
                ic = add(e)
                decls.append({'op': 'gear', 'm': ib, 's': ic,
                              'eff': round(r.uniform(0.7, 1.0), 3)})
                prev = ic
        elif c == 'worm':
            worm_done += 1
            alpha_deg = r.choice([14.5, 20.0, 25.0, 30.0])
            hmax = rm.WORM_TABLE[alpha_deg][0]
            alpha = alpha_deg * pi / 180
            aq = [alpha_deg, 'deg']
            if g.cfg.get('worm_alpha_units'):
                au = g.unit('Angle')
                if au != 'deg':
                    aq = g.q('Angle', alpha, au)
            worm_master = True
            if allow_wheel_master and g.chance(0.2) and self_locking is not True:
                worm_master = False
            beta = r.uniform(2.0, hmax * 0.985) * pi / 180
            thr, fmax = worm_f_range(alpha, beta, worm_master)
            sl = self_locking
            if sl is None or worm_done > 1:
                # (with two worm stages only the first one is forced; the
                # powertrain is self-locking if ANY of them is)
                sl = g.chance(0.5)
            if not worm_master:
                sl = False
            if sl and thr * 1.02 >= fmax * 0.98:
                # pick a flatter helix so that self-locking is reachable
                beta = r.uniform(2.0, min(hmax * 0.985, 12.0)) * pi / 180
                thr, fmax = worm_f_range(alpha, beta, worm_master)
            if sl:
                f = r.uniform(thr * 1.02, fmax * 0.98)
            else:
                f = r.uniform(0.0, min(thr * 0.98, fmax * 0.98))
            f = float(f)
            bu = g.unit('Angle')
            sub_w = subset(('d',))
            sub_wh = subset(('m', 'b'))
            worm = {'kind': 'WormGear', 'starts': r.choice([1, 1, 2, 3, 4]),
                    'J': g.inertia(),
                    'beta': g.q('Angle', beta, bu if g.chance(0.7) else None),
                    'alpha': list(aq),
                    'd': g.q('Length', r.uniform(5e-3, 60e-3))
                    if 'd' in sub_w else None}
            beta_wheel = beta
            if worm_master and g.chance(0.25):
                # only the pressure angles of a worm pair must agree: the
                # wheel's own helix angle may differ from the worm's
                beta_wheel = r.uniform(2.0, hmax * 0.985) * pi / 180
            wheel = {'kind': 'WormWheel', 'z': g.teeth(), 'J': g.inertia(),
                     'beta': g.q('Angle', beta_wheel, bu if g.chance(0.7) else None),
                     'alpha': list(aq),
                     'm': g.q('Length', g.optional_gear_data())
                     if 'm' in sub_wh else None,
                     'b': g.q('Length', r.uniform(2e-3, 40e-3))
                     if 'b' in sub_wh else None}
            first, second = (worm, wheel) if worm_master else (wheel, worm)
            i1 = add(first)
            decls.append({'op': 'joint', 'm': prev, 's': i1})
            i2 = add(second)
            decls.append({'op': 'worm', 'm': i1, 's': i2, 'f': f})
            prev = i2
    # F-REJECT-free re-routing history: a decoy gear is first declared as the
    # master of a chain gear (mating with efficiency < 1), then the chain's
    # own fixed joint re-routes that gear (DESIGN 7, D9)
    if allow_reroute:
        import copy as _copy
        joints = [d for d in decls if d['op'] == 'joint' and
                  els[d['s']]['kind'] in ('SpurGear', 'HelicalGear')]
        if joints:
            d = r.choice(joints)
            tgt = els[d['s']]
            decoy = _copy.deepcopy(tgt)
            decoy['z'] = g.teeth()
            decoy['J'] = g.inertia()
            decoy['name'] = f"decoy{len(els)}"
            els.append(decoy)
            decls.insert(0, {'op': 'gear', 'm': len(els) - 1, 's': d['s'],
                             'eff': round(r.uniform(0.3, 0.95), 3)})
    # the last element must be a GearBase (carries the external load)
    if els[-1]['kind'] not in rm.GEAR_KINDS:
        e = {'kind': 'SpurGear', 'z': g.teeth(), 'J': g.inertia(), 'm': None,
             'b': None, 'E': None}
        i = add(e)
        decls.append({'op': 'joint', 'm': prev, 's': i})
    # (only pairs without a module: the stale mating role that a fixed
    # joint leaves on a former mating pair - section 7, observations - must
    # not meet the stress computations of a later re-mating phase)
    redecl = [d for d in decls if d['op'] == 'gear'
              and els[d['m']].get('m') is None and els[d['s']].get('m') is None]
    if redecl and not allow_reroute and g.chance(0.08):
        # the same pair declared as a mating, then rigidly joined, then as a
        # mating again (what counts is the last declaration)
        d0 = r.choice(redecl)
        i0 = decls.index(d0)
        decls[i0:i0] = [dict(d0, eff=round(r.uniform(0.5, 1.0), 3)),
                        {'op': 'joint', 'm': d0['m'], 's': d0['s']}]
    elif not allow_reroute and g.chance(0.25):
        # the relations of one chain can be declared in any order
        # (downstream first, or at random): an idler keeps the role of the
        # mating declared last
        if g.chance(0.5):
            decls.reverse()
        else:
            r.shuffle(decls)
    return els, decls


def model_of(els, decls):
    m = rm.DeclModel([rm.elem_si(e) for e in els])
    for d in decls:
        m.apply(d)
    return m


# ---------------------------------------------------------------------------
# load, initial conditions, runs

def gen_load(g, model, chain, dt_hint=None, overload=None, families=None):
    r = g.rng
    k, R, E, J = rm.rate_constant(model, chain)
    mot = model.e[chain[0]]
    stall = mot['Tmax'] * E * R           # stall torque seen at the output
    w_out = mot['w0'] / R                 # no-load speed at the output
    if families is None:
        families = r.sample(['const', 'visc', 'quad', 'sinpos', 'sintime',
                             'step', 'coulomb'], r.choice([1, 1, 2, 2, 3]))
    if overload is None:
        overload = r.choice([0.2, 0.6, 1.0, 1.5])
    terms = []
    for f in families:
        amp = stall * overload * r.uniform(-1, 1)
        if f == 'const':
            terms.append({'t': 'const', 'c': amp})
        elif f == 'visc':
            terms.append({'t': 'visc', 'c': r.uniform(0.0, 0.4) * k * J})
        elif f == 'quad':
            terms.append({'t': 'quad',
                          'c': r.uniform(0.0, 0.3) * k * J / max(w_out, 1e-9)})
        elif f == 'coulomb':
            terms.append({'t': 'coulomb', 'F': abs(amp) * r.uniform(0.2, 1.0)})
        elif f == 'sinpos':
            wv = g.logu(0.05, 5.0)
            if dt_hint:
                # keep the position stiffness small against the step, so
                # that rounding differences are not amplified (differentials)
                amax = 0.1 * J / (dt_hint * dt_hint * wv)
                if abs(amp) > amax:
                    amp = math.copysign(amax, amp)
            terms.append({'t': 'sinpos', 'A': amp, 'w': wv,
                          'ph': r.uniform(0, 2 * pi)})
        elif f == 'sintime':
            terms.append({'t': 'sintime', 'A': amp,
                          'f': k * g.logu(0.01, 2.0) / (2 * pi),
                          'ph': r.uniform(0, 2 * pi)})
        elif f == 'step':
            terms.append({'t': 'step', 'A': amp,
                          't0': r.uniform(0.0, 8.0) / k})
    out = {'terms': terms, 'unit': g.unit('Torque')}
    if g.chance(0.12):
        out['unit2'] = r.choice(si.units_of('Torque'))
        out['t_unit2'] = r.uniform(0.0, 6.0) / k
    return out


def gen_init(g, model, chain, pwm=None):
    r = g.rng
    k, R, E, J = rm.rate_constant(model, chain)
    w_out = model.e[chain[0]]['w0'] / R
    c = r.random()
    if c < 0.35:
        w = 0.0
    elif c < 0.9:
        w = r.uniform(-1.2, 1.2) * w_out
    else:
        w = r.uniform(-3, 3) * w_out
    th = 0.0 if g.chance(0.3) else r.uniform(-20, 20)
    init = {'position': g.q('AngularPosition', th),
            'speed': g.q('AngularSpeed', w), 'pwm': None}
    if pwm is None:
        c = r.random()
        if c < 0.5:
            pwm = None
        elif c < 0.6:
            pwm = 0
        elif c < 0.7:
            pwm = r.choice([1, -1, 1.0, -1.0])
        else:
            pwm = round(r.uniform(-1, 1), 3)
    init['pwm'] = pwm
    return init


def gen_run(g, k, n=None, kdt=None, unit=None, decimal=False, **extra):
    """one run operation with dt = kdt / k."""
    r = g.rng
    if kdt is None:
        kdt = g.logu(0.01, 1.5) if g.chance(0.9) else g.logu(1.5, 2.5)
    if g.cfg.get('differential'):
        # differentials compare two executions up to rounding: stay well
        # inside the stability region of the explicit scheme (k*dt < 2,
        # loads add stiffness), where rounding is not amplified
        kdt = min(kdt, 1.0)
    if n is None:
        n = r.randint(*g.cfg.get('steps', (3, 60)))
    if unit is None and not g.cfg.get('mixed_time_units', True):
        if not hasattr(g, 'time_unit'):
            g.time_unit = g.unit('TimeInterval')
        unit = g.time_unit
    u = unit or g.unit('TimeInterval')
    dt_si = kdt / k
    v = dt_si / si.factor('TimeInterval', u)
    if decimal:
        v = float(f'{v:.3g}')
    if extra.pop('dyadic', False):
        # a step that is an exact binary fraction: k*dt, sums and differences
        # of grid times are then exact in floating point (boundary injection)
        import math as _m
        q = 7 - int(_m.floor(_m.log2(v)))
        v = round(v * 2.0 ** q) / 2.0 ** q
    op = {'op': 'run', 'dt': [v, u], 'n': n, 'control': False, 'stop': None,
          'solver': 'same'}
    if g.chance(0.5):
        op['T_mode'] = 'product'
    else:
        op['T_mode'] = 'literal'
        tu = u if (g.chance(0.7) or not g.cfg.get('mixed_time_units', True)) \
            else g.unit('TimeInterval')
        nn = n
        if g.chance(0.25) and not decimal and not g.cfg.get('differential'):
            # a duration that is NOT a whole number of steps: the solver
            # still takes ceil(T/dt) = n steps of dt each
            nn = n - r.uniform(0.05, 0.95)
        op['T'] = [v * nn * si.factor('TimeInterval', u) /
                   si.factor('TimeInterval', tu), tu]
    op.update(extra)
    if g.chance(0.12) and not decimal:
        # the step and/or the duration were built in another unit and
        # converted in place before the call
        if g.chance(0.6):
            op['dt'] = [op['dt'][0], op['dt'][1],
                        r.choice(si.units_of('TimeInterval'))]
        if 'T' in op and g.chance(0.7):
            op['T'] = [op['T'][0], op['T'][1],
                       r.choice(si.units_of('TimeInterval'))]
    return op


def run_T_si(op):
    if op.get('T_mode') == 'product':
        return si.q_si('TimeInterval', op['dt']) * op['n']
    return si.q_si('TimeInterval', op['T'])


# ---------------------------------------------------------------------------
# profiles

def base_scenario(g, profile, **chain_kw):
    els, decls = gen_chain(g, **chain_kw)
    model = model_of(els, decls)
    chain = model.chain(0)
    scn = {'seed': g.seed, 'profile': profile, 'elements': els,
           'decls': decls, 'motor': 0}
    return scn, model, chain


LIVE_ATTRS = {'angular_position': 'AngularPosition',
              'angular_speed': 'AngularSpeed',
              'angular_acceleration': 'AngularAcceleration',
              'torque': 'Torque', 'driving_torque': 'Torque',
              'load_torque': 'Torque', 'time': 'Time'}


def convert_live_op(g, chain):
    r = g.rng
    attr = r.choice(list(LIVE_ATTRS))
    return {'op': 'convert_live', 'elem': r.choice(chain), 'attr': attr,
            'unit': r.choice(si.units_of(LIVE_ATTRS[attr]))}


def set_state_op(g, model, chain):
    """The user re-references the output between two runs: a new position
    and/or speed assigned to the last element (F_SETSTATE)."""
    r = g.rng
    k, R, E, J = rm.rate_constant(model, chain)
    w_out = model.e[chain[0]]['w0'] / R
    op = {'op': 'set_state', 'position': None, 'speed': None}
    c = r.random()
    if c < 0.75:
        op['position'] = g.q('AngularPosition',
                             r.choice([0.0, r.uniform(-10, 10)]))
    if c > 0.5:
        op['speed'] = g.q('AngularSpeed',
                          r.choice([0.0, r.uniform(-1, 1) * w_out]))
    return op


def gen_dyn(g):
    """C01-C03 (and the default for others): run / continue / reset."""
    r = g.rng
    scn, model, chain = base_scenario(g, 'dyn',
                                      allow_reroute=g.chance(0.12))
    k = rm.rate_constant(model, chain)[0]
    scn['load'] = gen_load(g, model, chain)
    scn['init'] = gen_init(g, model, chain)
    sched = [gen_run(g, k)]
    for _ in range(r.choice([0, 0, 1, 1, 2, 3])):
        c = r.random()
        if g.chance(0.15):
            # the user changes the duty cycle by hand between two runs
            sched.append({'op': 'set_pwm',
                          'value': r.choice([0, 1, -1, round(r.uniform(-1, 1), 3)])})
        if g.chance(0.1):
            # ... or tries to, with a value that is rejected (F-BADPARAM):
            # nothing may change
            sched.append({'op': 'set_pwm', 'invalid': True,
                          'value': r.choice([1.5, -1.5, 2, -7, 1.0000001,
                                             -1.0000001])})
        if g.chance(0.15) and sched[-1]['op'] == 'run':
            sched.append(convert_live_op(g, chain))
        if g.chance(0.1) and not g.cfg.get('differential'):
            sched.append({'op': 'set_load', 'load': gen_load(g, model, chain)})
        masters = {d['m'] for d in scn['decls'] if d['op'] != 'joint'}
        free = [c for c in chain if c not in masters]
        if g.chance(0.1) and free:
            # (an element that is the master of a mating consults its own
            # 'drives' link for its stresses: only the others can be given a
            # second follower without changing their own behaviour)
            x = r.choice(free)
            sched.append({'op': 'branch_off',
                          'element': {'kind': 'Flywheel', 'J': g.inertia(),
                                      'name': f'branch{len(sched)}'},
                          'decl': {'op': 'joint', 'm': x}})
        gears = [d for d in scn['decls'] if d['op'] == 'gear' and
                 d['s'] in chain and d['m'] in chain]
        if gears and g.chance(0.12):
            # the same mating declared again with another efficiency between
            # two runs (state cached by the solver must not survive this)
            d = dict(r.choice(gears))
            d['eff'] = round(r.uniform(0.3, 1.0), 3)
            sched.append({'op': 'redeclare', 'decl': d})
        if g.chance(0.12) and (c < 0.6 or c >= 0.8):
            sched.append(set_state_op(g, model, chain))
        if c < 0.6:
            sched.append(gen_run(g, k))
        elif c < 0.8:
            sched.append({'op': 'reset', 'reapply': g.chance(0.7)})
            bare = [d for d in scn['decls'] if d['op'] == 'gear' and
                    d['m'] in chain and d['s'] in chain and
                    scn['elements'][d['m']].get('m') is None and
                    scn['elements'][d['s']].get('m') is None]
            if bare and g.chance(0.3) and not g.cfg.get('differential'):
                # a second powertrain assembled on the same motor and parts,
                # simulated and reset before the first one is run again
                import copy as _copy
                d = r.choice(bare)
                new = _copy.deepcopy(scn['elements'][d['s']])
                new['z'] = g.teeth()
                new['J'] = g.inertia()
                new['name'] = f'other{len(sched)}'
                ru = gen_run(g, k, kdt=g.logu(0.05, 0.8), n=r.randint(2, 12))
                sched.append({'op': 'other_powertrain', 'element': new,
                              'decl': {'op': 'gear', 'm': d['m'],
                                       'eff': round(r.uniform(0.4, 1.0), 3)},
                              'dt': ru['dt'], 'n': ru['n'],
                              'load': r.uniform(-0.5, 0.5) *
                              model.e[chain[0]]['Tmax'],
                              'reapply': sched[-1]['reapply']})
            sched.append(gen_run(g, k, solver=r.choice(['same', 'new'])))
        else:
            sched.append(gen_run(g, k, solver='new'))
    scn['schedule'] = sched
    add_control(g, scn, model, chain, p=0.4)
    add_stops(g, scn, model, chain, p=0.25)
    if not g.cfg.get('differential'):
        add_query_tail(g, scn, model)
    if g.chance(0.08) and not g.cfg.get('differential') and \
            not any(o['op'] in ('branch_off', 'other_powertrain')
                    for o in sched) and sched[-1]['op'] == 'run':
        # (a branch re-routes 'drives': a powertrain assembled afterwards
        # would follow the branch)
        add_remating_phase(g, scn, model, chain, k)
    return scn


def add_control(g, scn, model, chain, p=0.5, kinds=None, uniform=False):
    """Optionally add a rule set and switch control on in the runs."""
    r = g.rng
    if not g.chance(p):
        return
    mot = model.e[chain[0]]
    k, R, E, J = rm.rate_constant(model, chain)
    total_T = sum(run_T_si(op) for op in scn['schedule']
                  if op['op'] == 'run')
    n_total = sum(op['n'] for op in scn['schedule'] if op['op'] == 'run')
    rules = []
    if kinds is None:
        kinds = r.choice([['Scripted'], ['Scripted'], ['ConstantPWM'],
                          ['ConstantPWM', 'ConstantPWM'],
                          ['ConstantPWM', 'Scripted']])
    for kind in kinds:
        if kind == 'Scripted':
            rules.append(scripted_rule(g, n_total, mot))
        elif kind == 'ConstantPWM':
            start = r.uniform(0, 0.7) * total_T
            dur = r.uniform(0.05, 0.6) * total_T
            rules.append({'kind': 'ConstantPWM',
                          'start': g.q('Time', start),
                          'duration': g.q('TimeInterval', dur),
                          'value': r.choice([0, 1, -1, round(r.uniform(-1, 1), 3)])})
    scn['rules'] = rules
    for op in scn['schedule']:
        if op['op'] == 'run' and (uniform or g.chance(0.85)):
            op['control'] = True


def scripted_rule(g, n_total, mot, density=None, wild=False):
    r = g.rng
    table = {}
    if density is None:
        density = r.choice([0.2, 0.5, 0.9, 1.0])
    dlim = rm.motor_dlim(mot)
    # piecewise-constant duty history with sign changes and zeros
    cur = None
    for k in range(n_total + 2):
        if cur is None or g.chance(0.25):
            c = r.random()
            if c < 0.15:
                cur = 0
            elif c < 0.3:
                cur = r.choice([1, -1, 1.0, -1.0])
            elif c < 0.4 and dlim:
                cur = r.choice([dlim, -dlim, math.nextafter(dlim, 2),
                                math.nextafter(dlim, 0),
                                -math.nextafter(dlim, 2), dlim / 2])
            elif c < 0.5 and wild:
                cur = r.choice([1e6, -1e6, 1.0000000000000002, -1.0000000000000002,
                                r.uniform(1, 50), -r.uniform(1, 50)])
            else:
                cur = round(r.uniform(-1, 1), 4)
        if g.chance(density):
            table[str(k)] = cur
    return {'kind': 'Scripted', 'table': table}


def add_stops(g, scn, model, chain, p=0.3):
    """Blind stop thresholds (the stop profile places them from a dry run)."""
    r = g.rng
    if not g.chance(p):
        return
    k, R, E, J = rm.rate_constant(model, chain)
    w_out = model.e[chain[0]]['w0'] / R
    tgt = r.choice(chain)
    Rt = 1.0
    for c in chain[chain.index(tgt) + 1:]:
        Rt *= model.ratio[c]
    sensor = r.choice(['encoder', 'tachometer'])
    if sensor == 'tachometer':
        thr = g.q('AngularSpeed', r.uniform(-1, 1) * w_out * Rt)
    else:
        th0 = si.q_si('AngularPosition', scn['init']['position'])
        total_T = sum(run_T_si(op) for op in scn['schedule']
                      if op['op'] == 'run')
        thr = g.q('AngularPosition',
                  (th0 + r.uniform(-1, 1) * w_out * total_T * 0.5) * Rt)
    scn['stops'] = [{'sensor': sensor, 'target': tgt,
                     'op': r.choice(['gt', 'ge', 'lt', 'le']), 'thr': thr}]
    for op in scn['schedule']:
        if op['op'] == 'run' and g.chance(0.6):
            op['stop'] = 0


PROFILES = {'dyn': gen_dyn}


def condition_load(scn):
    """Differential profiles: keep the load function well conditioned, i.e.
    keep w*theta of position terms small enough that one rounding step of
    theta does not show up in the load beyond the comparison tolerance."""
    load = scn.get('load')
    if not load or not scn.get('schedule') or not scn.get('init'):
        return
    try:
        model = model_of(scn['elements'], scn['decls'])
        chain = model.chain(0)
        k, R, E, J = rm.rate_constant(model, chain)
    except Exception:      # noqa
        return
    w_out = model.e[chain[0]]['w0'] / R
    T = sum(run_T_si(o) for o in scn['schedule'] if o['op'] == 'run')
    th_max = abs(si.q_si('AngularPosition', scn['init']['position'])) + \
        (abs(si.q_si('AngularSpeed', scn['init']['speed'])) + 2 * w_out) * T
    dts = [si.q_si('TimeInterval', o['dt']) for o in scn['schedule']
           if o['op'] == 'run']
    dt_max = max(dts) if dts else 0.0
    for t in load['terms']:
        if t['t'] == 'sinpos' and t['w'] * th_max > 1e3:
            t['w'] = 1e3 / th_max
        if t['t'] == 'sinpos' and dt_max > 0:
            # position stiffness A*w small against J/dt^2 (no amplification
            # of rounding by the explicit scheme)
            amax = 0.1 * J / (dt_max * dt_max * t['w'])
            if abs(t['A']) > amax:
                t['A'] = math.copysign(amax, t['A'])


def gen(seed, profile, cfg=None):
    g = G(seed, cfg)
    scn = PROFILES[profile](g)
    if (cfg or {}).get('differential'):
        condition_load(scn)
    scn['seed'] = seed
    scn['profile'] = profile
    if profile in BYSTANDER_PROFILES:
        rb = random.Random(seed * 40503 % 2**32 + 7)
        if rb.random() < 0.15:
            gb = G(seed ^ 0x5bd1e995, cfg)
            by = [dict(gb.motor('bystander_motor', current=True),
                       pwm=rb.choice([None, 0.3, -0.6, 0]))]
            if rb.random() < 0.5:
                by.append({'kind': 'SpurGear', 'name': 'bystander_gear',
                           'z': gb.teeth(), 'J': gb.inertia(), 'm': None,
                           'b': None, 'E': None})
            scn['bystanders'] = by
    if profile in NP_PROFILES and \
            random.Random(seed * 2654435761 % 2**32).random() < 0.06:
        # the caller computes its numbers with numpy: every float literal of
        # the scenario is handed over as numpy.float64 (a float subclass)
        scn['np_inputs'] = True
    return scn


BYSTANDER_PROFILES = ('dyn', 'lock', 'ctrl', 'motor', 'stop', 'sched')
NP_PROFILES = ('dyn', 'lock', 'sched', 'stop', 'tv', 'query', 'ctrl',
               'motor', 'stress', 'grid', 'decl', 'quant')


def gen_lock(g):
    """Self-locking chains, overloads, duty histories with zeros and sign
    changes (C13; also feeds C01-C03 with held phases)."""
    r = g.rng
    sl = g.chance(0.8)
    scn, model, chain = base_scenario(
        g, 'lock', force_worm=True if sl else g.chance(0.3),
        self_locking=True if sl else False,
        n_target=r.choice([3, 3, 4, 5, 6, 8]), allow_wheel_master=not sl)
    k = rm.rate_constant(model, chain)[0]
    scn['load'] = gen_load(g, model, chain,
                           overload=r.choice([0.5, 2, 10, 1000]),
                           families=r.choice([['const'], ['const'],
                                              ['const', 'sintime'],
                                              ['step'], ['const', 'visc'],
                                              ['sinpos'], ['const', 'coulomb'],
                                              ['const', 'coulomb']]))
    scn['init'] = gen_init(g, model, chain)
    sched = [gen_run(g, k, kdt=g.logu(0.02, 1.0))]
    for _ in range(r.choice([0, 1, 1, 2])):
        c = r.random()
        if g.chance(0.2):
            sched.append({'op': 'set_pwm',
                          'value': r.choice([0, 0, 1, -1, round(r.uniform(-1, 1), 3)])})
        if g.chance(0.1):
            sched.append({'op': 'set_pwm', 'invalid': True,
                          'value': r.choice([1.5, -1.5, 2, -7])})
        if g.chance(0.15) and sched[-1]['op'] == 'run':
            sched.append(convert_live_op(g, chain))
        if c < 0.7:
            if g.chance(0.15):
                sched.append(set_state_op(g, model, chain))
            sched.append(gen_run(g, k, kdt=g.logu(0.02, 1.0)))
        else:
            sched.append({'op': 'reset', 'reapply': g.chance(0.7)})
            sched.append(gen_run(g, k, kdt=g.logu(0.02, 1.0),
                                 solver=r.choice(['same', 'new'])))
    mids = [c for c in chain[1:-1]
            if scn['elements'][c]['kind'] in rm.GEAR_KINDS]
    if mids and g.chance(0.15) and not g.cfg.get('differential'):
        # a second external torque on an intermediate gear (for the motor it
        # replaces what comes from downstream): the motor's net torque and
        # the output's net torque may then point in opposite directions
        l2 = gen_load(g, model, chain, overload=r.choice([0.5, 2, 10, 100]),
                      families=r.choice([['const'], ['const'],
                                         ['const', 'visc'], ['step']]))
        l2['on'] = r.choice(mids)
        if g.chance(0.5):
            # small load on the output, big one upstream
            for t in scn['load']['terms']:
                for key in ('c', 'A', 'F'):
                    if key in t:
                        t[key] *= 0.01
        scn['load2'] = l2
    worms = [d for d in scn['decls'] if d['op'] == 'worm' and
             scn['elements'][d['m']]['kind'] == 'WormGear']
    if worms and g.chance(0.15):
        # after assembly (and a run) the worm mating is declared again with
        # a friction on either side of the self-locking threshold, then
        # reset + run: the ASSEMBLED powertrain keeps its flag (C20) and its
        # behaviour (C13); only the efficiency follows the new declaration
        d = dict(r.choice(worms))
        alpha = si.q_si('Angle', scn['elements'][d['m']]['alpha'])
        beta = si.q_si('Angle', scn['elements'][d['m']]['beta'])
        thr, fmax = worm_f_range(alpha, beta, True)
        if g.chance(0.5) and thr * 1.02 < fmax * 0.98:
            d['f'] = float(r.uniform(thr * 1.02, fmax * 0.98))
        else:
            d['f'] = float(r.uniform(0.0, min(thr, fmax) * 0.98))
        sched.append({'op': 'redeclare', 'decl': d})
        sched.append({'op': 'probe_immutable'})
        if g.chance(0.5):
            sched.append(gen_run(g, k, kdt=g.logu(0.02, 1.0)))
        sched.append({'op': 'reset', 'reapply': g.chance(0.7)})
        sched.append({'op': 'probe_immutable'})
        sched.append(gen_run(g, k, kdt=g.logu(0.02, 1.0),
                             solver=r.choice(['same', 'new'])))
    scn['schedule'] = sched
    add_control(g, scn, model, chain, p=0.85,
                kinds=r.choice([['Scripted'], ['Scripted'],
                                ['ConstantPWM', 'ConstantPWM'],
                                ['ConstantPWM']]))
    add_stops(g, scn, model, chain, p=0.15)
    if g.chance(0.1) and not g.cfg.get('differential'):
        add_remating_phase(g, scn, model, chain, k)
    return scn


PROFILES['lock'] = gen_lock


# ---------------------------------------------------------------------------
# C11: the time axis

def _dec_str(m, e):
    """decimal literal m*10^-e as a string without exponent."""
    s = str(m)
    if e == 0:
        return s
    s = s.rjust(e + 1, '0')
    return s[:-e] + '.' + s[-e:]


def gen_grid(g):
    from decimal import Decimal
    r = g.rng
    n_runs = r.choice([1, 1, 2, 2, 3])
    unit_switch = g.cfg.get('mixed_time_units', True)
    runs = []
    u0 = r.choice(si.units_of('TimeInterval'))
    for j in range(n_runs):
        u = u0 if (j == 0 or not unit_switch or g.chance(0.5)) \
            else r.choice(si.units_of('TimeInterval'))
        m = r.choice([1, 2, 5, 25, 35, 125]) if g.chance(0.4) else r.randint(1, 999)
        e = r.randint(0, 4)
        n = r.randint(2, g.cfg.get('grid_n_max', 120))
        if g.chance(0.004):
            n = r.choice([r.randint(1001, 2300), r.randint(4097, 6500)])  # a long run
        dt_dec = Decimal(_dec_str(m, e))
        dt = float(dt_dec)
        op = {'op': 'run', 'dt': [dt, u], 'n': n, 'control': False,
              'stop': None, 'solver': 'same'}
        if g.chance(0.5):
            op['T_mode'] = 'product'
        else:
            op['T_mode'] = 'literal'
            # T in the same unit or a smaller one (exact decimal conversion)
            fu = rm.TIME_DEC[u]
            cands = [x for x in si.units_of('TimeInterval')
                     if rm.TIME_DEC[x] <= fu]
            tu = u if g.chance(0.6) else r.choice(cands)
            T_dec = dt_dec * n * fu / rm.TIME_DEC[tu]
            op['T'] = [float(T_dec), tu]
        if int(dt) == dt and g.chance(0.5):
            op['dt'][0] = int(dt)
        if g.chance(0.15):
            # built in another unit, converted in place before the call
            key = r.choice(['dt', 'T']) if 'T' in op else 'dt'
            op[key] = [op[key][0], op[key][1],
                       r.choice(si.units_of('TimeInterval'))]
        runs.append(op)
    dt_max = max(si.q_si('TimeInterval', o['dt']) for o in runs)
    # a drive slow enough for the largest step (k*dt <= ~0.2)
    w0 = g.logu(50, 1500)
    Tmax = g.logu(1e-3, 5)
    kdt = g.logu(0.001, 0.2)
    J = Tmax / w0 * dt_max / kdt
    z1, z2 = g.teeth(), g.teeth()
    els = [{'kind': 'DCMotor', 'name': 'motor', 'J': g.q('InertiaMoment', J * 0.5),
            'w0': g.q('AngularSpeed', w0), 'Tmax': g.q('Torque', Tmax),
            'i0': None, 'imax': None},
           {'kind': 'SpurGear', 'name': 'gear', 'z': z1,
            'J': g.q('InertiaMoment', J * 0.5), 'm': None, 'b': None, 'E': None}]
    decls = [{'op': 'joint', 'm': 0, 's': 1}]
    held = g.chance(0.08)
    if held:
        # a self-locking worm drive; with the duty cycle at 0 and no motor
        # control it is held from the first instant on and the axis must
        # still run to T
        els = [els[0],
               {'kind': 'WormGear', 'name': 'worm', 'starts': 1,
                'J': g.q('InertiaMoment', J * 0.25),
                'beta': [10.0, 'deg'], 'alpha': [20.0, 'deg'], 'd': None},
               {'kind': 'WormWheel', 'name': 'wheel', 'z': z1,
                'J': g.q('InertiaMoment', J * 0.25),
                'beta': [10.0, 'deg'], 'alpha': [20.0, 'deg'],
                'm': None, 'b': None}]
        decls = [{'op': 'joint', 'm': 0, 's': 1},
                 {'op': 'worm', 'm': 1, 's': 2, 'f': 0.4}]
    scn = {'seed': g.seed, 'profile': 'grid', 'elements': els, 'decls': decls,
           'motor': 0,
           'load': {'terms': [{'t': 'const', 'c': Tmax * r.uniform(-0.5, 0.9)}],
                    'unit': g.unit('Torque')},
           'init': {'position': g.q('AngularPosition', 0.0),
                    'speed': g.q('AngularSpeed', r.uniform(0, 1) * w0),
                    'pwm': None}}
    if held:
        scn['init']['pwm'] = r.choice([0, 0, 0.0, 1])
    sched = []
    for j, op in enumerate(runs):
        if j > 0 and g.chance(0.15):
            sched.append({'op': 'reset', 'reapply': True})
        sched.append(op)
    scn['schedule'] = sched
    if any(o['op'] == 'run' and o['n'] > 1000 for o in sched):
        scn['wall'] = 120.0
    # F-STOP: an encoder threshold somewhere along the way
    if g.chance(0.3):
        total = sum(run_T_si(o) for o in runs)
        scn['stops'] = [{'sensor': 'encoder', 'target': 1, 'op': 'ge',
                         'thr': g.q('AngularPosition',
                                    r.uniform(0.05, 1.2) * w0 * total)}]
        for o in runs:
            if g.chance(0.7):
                o['stop'] = 0
    return scn


PROFILES['grid'] = gen_grid


# ---------------------------------------------------------------------------
# C12: continuation and reset/rerun

def gen_sched(g):
    r = g.rng
    mode = r.choice(['split', 'split', 'rerun', 'rerun', 'rerun_split'])
    lockish = g.chance(0.45)
    scn, model, chain = base_scenario(
        g, 'sched', force_worm=True if lockish else None,
        self_locking=True if lockish else None,
        n_target=r.choice([2, 3, 4, 5, 6, 8]))
    k = rm.rate_constant(model, chain)[0]
    fam = r.choice([['const'], ['const', 'sintime'], ['sintime'],
                    ['const', 'visc'], ['sinpos'], ['quad', 'const'],
                    ['step', 'const']])
    kdt = g.logu(0.02, 1.2)
    dt_si = kdt / k
    scn['load'] = gen_load(g, model, chain, families=fam, dt_hint=dt_si,
                           overload=r.choice([0.3, 0.8, 1.5, 5]) if lockish
                           else r.choice([0.2, 0.6, 1.0]))
    scn['init'] = gen_init(g, model, chain)
    if scn['init']['pwm'] is None:
        scn['init']['pwm'] = 1
    units = si.units_of('TimeInterval')
    u0 = r.choice(units)
    nseg = r.choice([2, 2, 3])
    steps = g.cfg.get('steps', (3, 50))
    segs = []
    for j in range(nseg):
        u = u0 if (j == 0 or g.chance(0.5)) else r.choice(units)
        n = r.randint(*steps)
        op = {'op': 'run', 'dt': [dt_si / si.factor('TimeInterval', u), u],
              'n': n, 'control': False, 'stop': None, 'solver': 'same',
              'T_mode': 'product'}
        if g.chance(0.4):
            op['T_mode'] = 'literal'
            op['T'] = [op['dt'][0] * n, u]
        segs.append(op)
    scn['mode'] = mode
    import copy
    if mode == 'split':
        scn['schedule'] = segs
    else:
        first = segs if mode == 'rerun_split' else segs[:1]
        if mode == 'rerun' and g.chance(0.4):
            # another dt in the second run of the repeated schedule
            op = gen_run(g, k, kdt=g.logu(0.02, 1.2), unit=r.choice(units))
            first = first + [op]
        scn['schedule'] = first
    if g.chance(0.25):
        # a query between (or after) the runs: exporting or taking a snapshot
        # must not disturb a continuation or a repetition
        if g.chance(0.6):
            q_op = {'op': 'export', 'units': out_units(g, export=True),
                    'fault': None}
        else:
            q_op = {'op': 'snapshot',
                    'at': [r.random(), round(r.uniform(0.02, 0.98), 3),
                           r.choice(si.units_of('Time'))],
                    'units': out_units(g), 'vars': None, 'as_interval': False}
        scn['schedule'] = list(scn['schedule'])
        scn['schedule'].insert(r.randint(1, len(scn['schedule'])), q_op)
    add_control(g, scn, model, chain, p=0.6, uniform=(mode == 'split'),
                kinds=r.choice([['Scripted'], ['Scripted'], ['ConstantPWM'],
                                ['ConstantPWM', 'ConstantPWM']]))
    if mode != 'split' and g.chance(0.3):
        add_stops(g, scn, model, chain, p=1.0)
    if scn.get('rules'):
        # a new, identical controller object for a later run
        later = [o for o in scn['schedule'] if o['op'] == 'run'][1:]
        for o in later:
            if g.chance(0.2):
                o['new_control'] = True
    if mode != 'split':
        second = copy.deepcopy(scn['schedule'])
        second[0]['solver'] = r.choice(['same', 'new'])
        if scn.get('rules') and g.chance(0.3):
            second[0]['new_control'] = True
        # the duty cycle is either re-applied with the other initial
        # conditions or left to reset() (comparable only if the controller
        # applied the pre-run duty cycle again at t = 0, see the oracle)
        scn['schedule'] = scn['schedule'] + \
            [{'op': 'reset', 'reapply': True,
              'reapply_pwm': g.chance(0.5)}] + second
    return scn


PROFILES['sched'] = gen_sched


# ---------------------------------------------------------------------------
# C16: stop conditions placed from a dry run

def _stop_base(g):
    r = g.rng
    lockish = g.chance(0.3)
    scn, model, chain = base_scenario(
        g, 'stop', force_worm=True if lockish else None,
        self_locking=True if lockish else None,
        n_target=r.choice([2, 3, 4, 5, 6, 8]))
    # amperometer needs current data
    mot = scn['elements'][0]
    if mot['i0'] is None and g.chance(0.6):
        m2 = g.motor('e0_motor', current=True)
        for key in ('i0', 'imax'):
            mot[key] = m2[key]
        model = model_of(scn['elements'], scn['decls'])
    k = rm.rate_constant(model, chain)[0]
    scn['load'] = gen_load(g, model, chain,
                           overload=r.choice([0.3, 0.8, 1.2, 3]))
    scn['init'] = gen_init(g, model, chain)
    sched = [gen_run(g, k)]
    if g.chance(0.012):
        # a long run (thousands of steps): anything the solver does in
        # blocks, batches or with growing lists shows only here
        sched = [gen_run(g, k, n=r.randint(1001, 2300),
                         kdt=g.logu(0.002, 0.02))]
        scn['wall'] = 120.0
    if g.chance(0.5):
        sched.append(gen_run(g, k))
    if g.chance(0.15):
        sched.append(gen_run(g, k))
    if g.chance(0.2):
        # stop conditions combined with reset and rerun
        sched.append({'op': 'reset', 'reapply': g.chance(0.7)})
        sched.append(gen_run(g, k, solver=r.choice(['same', 'new'])))
    scn['schedule'] = sched
    add_control(g, scn, model, chain, p=0.5)
    return scn, model, chain, mot, sched


def gen_stop(g):
    import copy
    from . import execu
    r = g.rng
    if g.chance(0.25):
        # the library's own rules (position/current driven duty cycles)
        # under a stop condition: base scenario of the control profile
        scn = gen_ctrl(g, profile='stop')
        model = model_of(scn['elements'], scn['decls'])
        chain = model.chain(0)
        mot = scn['elements'][0]
        sched = scn['schedule']
    else:
        scn, model, chain, mot, sched = _stop_base(g)
    if g.chance(0.15) and scn.get('load'):
        scn['load']['np'] = True
    # -- dry run (real code, no stop) to learn the reachable range
    dry = copy.deepcopy(scn)
    H = execu.execute(dry, keep_objects=True)
    ctx = H.get('_ctx')
    sensors = ['encoder', 'tachometer']
    if mot['i0'] is not None:
        sensors.append('amperometer')
    sensor = r.choice(sensors)
    tgt = chain[0] if sensor == 'amperometer' else r.choice(chain)
    var, kind = execu.SENSOR_VAR[sensor]
    series = []
    raw = []
    try:
        lst = ctx.objs[tgt].time_variables.get(var, [])
        raw = [[x.value, x.unit] for x in lst]
        series = [si.obj_si(x) for x in lst]
    except Exception:      # noqa
        pass
    series = [x for x in series if x == x and abs(x) < 1e200]
    opname = r.choice(['gt', 'ge', 'lt', 'le', 'eq'])
    place = r.choice(['inside', 'inside', 'on_sample', 'on_sample', 'before',
                      'beyond', 'mid'])
    if len(series) < 3:
        lo, hi = -1.0, 1.0
        thr = g.q(kind, r.uniform(lo, hi))
    else:
        lo, hi = min(series), max(series)
        span = (hi - lo) or max(abs(hi), 1.0)
        j = r.randrange(1, len(series))
        if place == 'inside':
            thr = g.q(kind, r.uniform(lo, hi))
        elif place == 'mid':
            thr = g.q(kind, 0.5 * (series[j - 1] + series[j]))
        elif place == 'on_sample':
            thr = list(raw[j]) if g.chance(0.7) else g.q(kind, series[j])
        elif place == 'before':
            thr = g.q(kind, lo - r.uniform(0.1, 2) * span
                      if opname in ('gt', 'ge') else
                      hi + r.uniform(0.1, 2) * span)
        else:
            thr = g.q(kind, hi + r.uniform(0.1, 2) * span
                      if opname in ('gt', 'ge') else
                      lo - r.uniform(0.1, 2) * span)
    if opname == 'eq' and place not in ('on_sample',) and len(series) >= 3:
        j = r.randrange(1, len(series))
        thr = list(raw[j])
    scn['stops'] = [{'sensor': sensor, 'target': tgt, 'op': opname,
                     'thr': thr, 'place': place}]
    if g.chance(0.12):
        scn['stops'][0]['np'] = True
    for i, op in enumerate(sched):
        if op['op'] == 'run' and (i == 0 or g.chance(0.7)):
            op['stop'] = 0
    return scn


PROFILES['stop'] = gen_stop


# ---------------------------------------------------------------------------
# C17 / C18: recorded variables, snapshot, export

OUT_UNITS = {
    'angular_position_unit': 'AngularPosition',
    'angular_speed_unit': 'AngularSpeed',
    'angular_acceleration_unit': 'AngularAcceleration',
    'torque_unit': 'Torque', 'driving_torque_unit': 'Torque',
    'load_torque_unit': 'Torque', 'force_unit': 'Force',
    'stress_unit': 'Stress', 'current_unit': 'Current',
}


def out_units(g, export=False):
    r = g.rng
    kw = {}
    for key, kind in OUT_UNITS.items():
        if g.chance(0.5):
            kw[key] = r.choice(si.units_of(kind))
    if export and g.chance(0.5):
        kw['time_unit'] = r.choice(si.units_of('Time'))
    return kw


def advertised(e, mate=None):
    """variables an element of this spec advertises (by documentation);
    mate: the worm gear a worm wheel is mated with."""
    base = ['angular position', 'angular speed', 'angular acceleration',
            'torque', 'driving torque', 'load torque']
    k = e['kind']
    if k == 'DCMotor':
        if e.get('i0') is not None and e.get('imax') is not None:
            base.append('electric current')
        base.append('pwm')
    elif k == 'WormGear':
        if e.get('d') is not None:
            base.append('tangential force')
    elif k in rm.GEAR_KINDS:
        if e.get('m') is not None:
            base.append('tangential force')
            if e.get('b') is not None and not (
                    k == 'WormWheel' and mate is not None and
                    mate.get('d') is None):
                base.append('bending stress')
                if e.get('E') is not None and k != 'WormWheel':
                    base.append('contact stress')
    return base


def gen_query(g, profile='query'):
    r = g.rng
    scn, model, chain = base_scenario(
        g, profile, n_target=r.choice([2, 3, 4, 5, 6, 8, 10]),
        force_worm=True if g.chance(0.45) else None,
        data_level=r.choice([None, None, None, 2, 0]))
    if g.chance(0.15):
        # names as users write them: blanks and dots ("stage.index")
        for i_, e_ in enumerate(scn['elements']):
            e_['name'] = f"{e_['kind'].lower()[:5]} {i_ // 2 + 1}.{i_ % 2 + 1}"
    mot0 = scn['elements'][0]
    if mot0['i0'] is not None and mot0['imax'] is not None and g.chance(0.08):
        # only one of the two optional currents: the current is not
        # computable, nothing about it is advertised or recorded
        mot0[r.choice(['i0', 'imax'])] = None
        model = model_of(scn['elements'], scn['decls'])
    k = rm.rate_constant(model, chain)[0]
    scn['load'] = gen_load(g, model, chain)
    scn['init'] = gen_init(g, model, chain)
    g.cfg = dict(g.cfg)
    g.cfg['steps'] = g.cfg.get('steps', (2, 25))
    sched = [gen_run(g, k)]
    if g.chance(0.4):
        sched.append(gen_run(g, k))
        if g.chance(0.4):
            # longer histories: the step changes and may come back to the
            # one of the first run (coarse-fine-coarse time axis)
            import copy
            sched.append(copy.deepcopy(sched[0]) if g.chance(0.6)
                         else gen_run(g, k))
            if g.chance(0.3):
                sched.append(copy.deepcopy(r.choice(sched[:2])))
    if profile == 'tv':
        c = r.random()
        if c < 0.35:
            sched.append({'op': 'reset', 'reapply': g.chance(0.6)})
            if g.chance(0.8):
                sched.append(gen_run(g, k, solver=r.choice(['same', 'new'])))
    if len(sched) >= 2 and g.chance(0.35):
        # queries in the middle of a history: whatever an export or a
        # snapshot leaves behind meets the next run / reset
        mid = []
        if g.chance(0.7):
            mid.append({'op': 'export', 'units': out_units(g, export=True),
                        'fault': None})
        if g.chance(0.5) or not mid:
            mid.append({'op': 'snapshot',
                        'at': [r.random(),
                               0 if g.chance(0.5) else round(r.uniform(0.02, 0.98), 3),
                               r.choice(si.units_of('Time'))],
                        'units': out_units(g), 'vars': None,
                        'as_interval': False})
        sched[1:1] = mid
    scn['schedule'] = sched
    add_control(g, scn, model, chain, p=0.4)
    if g.chance(0.3):
        add_stops(g, scn, model, chain, p=1.0)
    if profile == 'tv' and g.chance(0.06):
        # the user's own mistake in the middle of a history: a stop condition
        # whose threshold is of another kind than the sensor reads ends a
        # continuation with a TypeError at its first comparison; they drop it
        # and go on.  What that run left behind must still be consistent
        stops = scn.setdefault('stops', [])
        stops.append({'sensor': 'encoder', 'target': chain[-1], 'op': 'gt',
                      'thr': g.q('AngularSpeed', 1.0),
                      'wrong_kind': 'AngularSpeed'})
        bad = gen_run(g, k, n=r.randint(2, 6))
        bad['stop'] = len(stops) - 1
        bad['expect_failure'] = True
        idx = next(i for i, o in enumerate(sched) if o['op'] == 'run') + 1
        sched.insert(idx, bad)
    total_T = sum(run_T_si(op) for op in sched if op['op'] == 'run')
    last_T = 0.0
    for op in sched:
        if op['op'] == 'reset':
            last_T = 0.0
        elif op['op'] == 'run':
            last_T += run_T_si(op)
    valid = []
    for i, e in enumerate(scn['elements']):
        mate = None
        if e['kind'] == 'WormWheel' and model.mate[i] is not None:
            mate = scn['elements'][model.mate[i]]
        for v in advertised(e, mate):
            if v not in valid:
                valid.append(v)
    if sched[-1]['op'] == 'reset':
        return scn
    n_snap = r.choice([1, 2, 3]) if profile == 'query' else 1
    for _ in range(n_snap):
        c = r.random()
        if c < 0.1:
            # the end of the simulated interval, in any time unit
            at = [1.0, 0, r.choice(si.units_of('Time'))]
        elif c < 0.4:
            at = [r.random(), 0, r.choice(si.units_of('Time'))]
        elif c < 0.5:
            at = [0.0, 0, 'sec']
        else:
            at = [r.random(), round(r.uniform(0.02, 0.98), 3),
                  r.choice(si.units_of('Time'))]
        op = {'op': 'snapshot', 'at': at, 'units': out_units(g),
              'as_interval': g.chance(0.25)}
        c = r.random()
        if g.cfg.get('exhaustive_subsets') and g.chance(0.6):
            # sizes 1 and 2 enumerated across the campaign: the seed picks
            # the index into the list of all such subsets
            import itertools
            subs = [[x] for x in valid] + \
                [list(x) for x in itertools.combinations(valid, 2)]
            op['vars'] = subs[(g.seed + len(sched)) % len(subs)]
        elif c < 0.25:
            op['vars'] = None
        elif c < 0.6:
            op['vars'] = [r.choice(valid)]
        elif c < 0.8:
            op['vars'] = r.sample(valid, min(2, len(valid)))
        else:
            op['vars'] = [v for v in valid if g.chance(0.5)] or [valid[0]]
        if op['vars'] and g.chance(0.3):
            r.shuffle(op['vars'])
        sched.append(op)
    n_exp = r.choice([1, 1, 2]) if profile == 'query' else 1
    for _ in range(n_exp):
        op = {'op': 'export', 'units': out_units(g, export=True),
              'fault': None}
        if profile == 'query' and g.chance(0.4):
            kind = r.choice(['write_error', 'write_error', 'open_error',
                             'makedirs_error', 'close_error'])
            op['fault'] = {'kind': kind,
                           'errno': r.choice(['ENOSPC', 'EIO', 'EACCES']),
                           'file': r.randrange(0, len(scn['elements'])),
                           'at_byte': r.choice([0, 1, 50, 100, 400, 1000, 5000])}
        sched.append(op)
    return scn


def add_query_tail(g, scn, model, p=0.3):
    """Append a snapshot and an export to a scenario of another profile
    (queries after unusual histories: re-declarations, in-place
    conversions, branches, phases ...)."""
    r = g.rng
    sched = scn['schedule']
    if not g.chance(p) or not sched or sched[-1]['op'] != 'run':
        return
    valid = []
    for i, e in enumerate(scn['elements']):
        mate = None
        if e['kind'] == 'WormWheel' and i < len(model.mate) and \
                model.mate[i] is not None:
            mate = scn['elements'][model.mate[i]]
        for v in advertised(e, mate):
            if v not in valid:
                valid.append(v)
    base = ['angular position', 'angular speed', 'angular acceleration',
            'torque', 'driving torque', 'load torque', 'pwm']
    at = [r.random(), 0 if g.chance(0.4) else round(r.uniform(0.02, 0.98), 3),
          r.choice(si.units_of('Time'))]
    if g.chance(0.1):
        at = [1.0, 0, at[2]]
    sched.append({'op': 'snapshot', 'at': at, 'units': out_units(g),
                  'vars': r.choice([None, [r.choice(base)],
                                    r.sample(base, 2)]),
                  'as_interval': g.chance(0.2)})
    sched.append({'op': 'export', 'units': out_units(g, export=True),
                  'fault': None})


def gen_tv(g):
    return gen_query(g, 'tv')


PROFILES['query'] = gen_query
PROFILES['tv'] = gen_tv


# ---------------------------------------------------------------------------
# C14 / C15 / C08: control

def gen_ctrl(g, profile='ctrl'):
    r = g.rng
    scn, model, chain = base_scenario(
        g, profile, n_target=r.choice([2, 3, 3, 4, 5, 6, 8]),
        force_worm=True if g.chance(0.25) else None,
        data_level=r.choice([0, 0, None]))
    mot = scn['elements'][0]
    if mot['i0'] is None and g.chance(0.85):
        m2 = g.motor('e0_motor', current=True)
        mot['i0'], mot['imax'] = m2['i0'], m2['imax']
        model = model_of(scn['elements'], scn['decls'])
    has_current = mot['i0'] is not None
    msi = model.e[0]
    k, R, E, J = rm.rate_constant(model, chain)
    w_out = msi['w0'] / R
    scn['load'] = gen_load(
        g, model, chain, overload=r.choice([0.05, 0.2, 0.5, 0.9]),
        families=r.choice([['const'], ['const'], ['const', 'visc'],
                           ['visc'], ['const', 'sintime'], ['quad']]))
    if g.cfg.get('nonneg_load'):
        for t in scn['load']['terms']:
            for key in ('c', 'A'):
                if key in t and t['t'] in ('const',):
                    t[key] = abs(t[key])
    th0 = 0.0 if g.chance(0.7) else r.uniform(-2, 2)
    scn['init'] = {'position': g.q('AngularPosition', th0),
                   'speed': g.q('AngularSpeed',
                                0.0 if g.chance(0.7) else r.uniform(-0.3, 1.1) * w_out),
                   'pwm': r.choice([None, None, 1, 0.5, 0, -1])}
    kdt = g.logu(0.03, 0.8)
    n1 = r.randint(*g.cfg.get('steps', (8, 70)))
    dyadic = g.chance(0.6)
    sched = [gen_run(g, k, n=n1, kdt=kdt, dyadic=dyadic)]
    if g.chance(0.35):
        sched.append(gen_run(g, k, kdt=kdt, dyadic=dyadic))
    if g.chance(0.1):
        sched.append({'op': 'reset', 'reapply': True})
        sched.append(gen_run(g, k, n=n1, kdt=kdt, dyadic=dyadic,
                             solver=r.choice(['same', 'new'])))
    scn['schedule'] = sched
    n_total = sum(o['n'] for o in sched if o['op'] == 'run')
    T_total = sum(run_T_si(o) for o in sched if o['op'] == 'run')
    dt_q = sched[0]['dt']
    dt_si = si.q_si('TimeInterval', dt_q)
    # distance the output can travel within the horizon
    reach = w_out * T_total * r.uniform(0.2, 0.8)

    def enc_target():
        tgt = r.choice(chain)
        Rt = 1.0
        for c in chain[chain.index(tgt) + 1:]:
            Rt *= model.ratio[c]
        return tgt, Rt

    def rule(kind):
        if kind == 'Scripted':
            return scripted_rule(g, n_total, msi, wild=True,
                                 density=r.choice([0.1, 0.3, 0.6, 1.0]))
        if kind == 'ConstantPWM':
            # edges on grid instants on purpose (F-BOUNDARY) or anywhere
            if g.chance(0.5):
                # exactly on grid instants, in the unit of the step
                i0 = r.randint(0, max(1, n_total // 2))
                j0 = r.randint(1, max(2, n_total // 2))
                return {'kind': 'ConstantPWM',
                        'start': [i0 * dt_q[0], dt_q[1]],
                        'duration': [j0 * dt_q[0], dt_q[1]],
                        'value': r.choice([0, 1, -1, 0.5,
                                           round(r.uniform(-1, 1), 3)])}
            else:
                start = r.uniform(0, 0.7) * T_total
                dur = r.uniform(0.05, 0.6) * T_total
            return {'kind': 'ConstantPWM', 'start': g.q('Time', start),
                    'duration': g.q('TimeInterval', dur),
                    'value': r.choice([0, 1, -1, 0.5, round(r.uniform(-1, 1), 3)])}
        tgt, Rt = enc_target()
        if kind == 'ReachAngularPosition':
            target = (th0 + reach * r.uniform(0.5, 1.5)) * Rt
            brake = abs(reach) * Rt * r.uniform(0.05, 0.6) + 1e-6
            return {'kind': kind, 'enc': tgt,
                    'target': g.q('AngularPosition', target),
                    'brake': g.q('Angle', brake)}
        if kind == 'StartProportional':
            target = (th0 + reach * r.uniform(0.05, 0.6)) * Rt
            if abs(target) < 1e-9:
                target = 1e-3 * Rt
            return {'kind': kind, 'enc': tgt,
                    'target': g.q('AngularPosition', target),
                    'mult': r.choice([2, 1.5, 3.0, round(r.uniform(1.05, 6), 2)]),
                    'pwm_min': r.choice([None, 0.1, 0.3])}
        if kind == 'StartLimitCurrent':
            tach = chain[0] if g.chance(0.7) else r.choice(chain)
            i0, imax = msi['i0'], msi['imax']
            lim = r.uniform(max(i0 * 1.2, 0.05 * imax), imax * 1.1)
            target = (th0 + reach * r.uniform(0.05, 0.6)) * Rt
            return {'kind': kind, 'enc': tgt, 'tach': tach,
                    'target': g.q('AngularPosition', target),
                    'limit': g.q('Current', lim)}
        raise AssertionError(kind)
    pool = ['ConstantPWM', 'ReachAngularPosition', 'Scripted']
    if has_current:
        pool += ['StartProportional', 'StartLimitCurrent', 'StartLimitCurrent']
    c = r.random()
    if c < 0.05:
        kinds = []
    elif c < 0.45:
        kinds = [r.choice(pool)]
    elif c < 0.75:
        kinds = [r.choice(pool), r.choice(pool)]
    elif c < 0.9:
        kinds = [r.choice(pool) for _ in range(3)]
    else:
        kinds = [r.choice(pool) for _ in range(4)]
    if g.cfg.get('only_scripted'):
        kinds = ['Scripted']
    scn['rules'] = [rule(kd) for kd in kinds]
    n_runs = sum(1 for o in sched if o['op'] == 'run')
    if n_runs >= 2 and scn['rules'] and g.chance(0.2) and \
            not g.cfg.get('only_scripted'):
        # one rule is added to the same controller between two runs
        scn['rules'][r.randrange(len(scn['rules']))]['from_run'] = \
            r.randrange(1, n_runs)
    for op in sched:
        if op['op'] == 'run':
            op['control'] = bool(scn['rules']) or g.chance(0.5)
    for op in [o for o in sched if o['op'] == 'run'][1:]:
        if scn['rules'] and g.chance(0.15):
            op['new_control'] = True
    if not scn['rules']:
        # an empty rule set is still a controller (default duty 1): either
        # a PWMControl without any rule or one rule that never applies
        if g.chance(0.5):
            scn['rules'] = []
            scn['empty_control'] = True
        else:
            scn['rules'] = [{'kind': 'Scripted', 'table': {}}]
        for op in sched:
            if op['op'] == 'run':
                op['control'] = True
    return scn


PROFILES['ctrl'] = gen_ctrl


# ---------------------------------------------------------------------------
# C08: motor characteristic (boundary duty schedules, mirror run)

def gen_motor(g):
    r = g.rng
    scn, model, chain = base_scenario(
        g, 'motor', n_target=r.choice([2, 2, 3, 4]), data_level=0,
        force_worm=True if g.chance(0.15) else False)
    mot = scn['elements'][0]
    if mot['i0'] is None and g.chance(0.85):
        m2 = g.motor('e0_motor', current=True)
        mot['i0'], mot['imax'] = m2['i0'], m2['imax']
    if mot['i0'] is not None and g.chance(0.3):
        # small currents in mA/uA: products D*imax then land on i0 exactly
        # for some one-ulp neighbours of the dead-zone edge
        i0 = g.logu(1e-5, 1e-2)
        imax = i0 * r.uniform(3, 30)
        u = r.choice(['mA', 'uA', 'A'])
        mot['i0'] = [float(f'{i0 / si.factor("Current", u):.3g}'), u]
        mot['imax'] = [float(f'{imax / si.factor("Current", u):.3g}'), u]
    if mot['i0'] is not None and g.chance(0.08):
        # only one of the two optional currents given: legal, the current is
        # not computable and the torque follows the law without current data
        mot[r.choice(['i0', 'imax'])] = None
    model = model_of(scn['elements'], scn['decls'])
    msi = model.e[0]
    k, R, E, J = rm.rate_constant(model, chain)
    w_out = msi['w0'] / R
    scn['load'] = gen_load(g, model, chain,
                           overload=r.choice([0.1, 0.5, 1.0, 2.0, 5.0]),
                           families=r.choice([['const'], ['const', 'visc'],
                                              ['const', 'sintime'], ['quad']]))
    c = r.random()
    w_init = 0.0 if c < 0.3 else (r.uniform(-1.5, 1.5) * w_out if c < 0.8
                                  else r.uniform(-4, 4) * w_out)
    scn['init'] = {'position': g.q('AngularPosition', r.uniform(-5, 5)),
                   'speed': g.q('AngularSpeed', w_init),
                   'pwm': r.choice([1, -1, 0.5, -0.5, 0, 1.0])}
    n = r.randint(*g.cfg.get('steps', (6, 60)))
    sched = [gen_run(g, k, n=n, kdt=g.logu(0.02, 1.0), control=True)]
    scn['schedule'] = sched
    # full-density scripted duty history (so that the mirror run is exact)
    dlim = rm.motor_dlim(msi)
    table = {}
    cur = 1.0
    sweep = g.chance(0.3)
    for j in range(n + 2):
        if sweep:
            cur = round(-1 + 2 * j / (n + 1), 6)
        elif g.chance(0.3):
            c = r.random()
            if c < 0.35 and dlim:
                base = dlim * r.choice([1, -1])
                cur = r.choice([base, math.nextafter(base, 2),
                                math.nextafter(base, -2),
                                math.nextafter(math.nextafter(base, 2), 2),
                                base * (1 + 1e-12), base * (1 - 1e-12)])
            elif c < 0.45:
                cur = r.choice([1, -1, 1.0, -1.0])
            elif c < 0.55:
                cur = 0
            else:
                cur = round(r.uniform(-1, 1), 4)
        table[str(j)] = cur
    scn['rules'] = [{'kind': 'Scripted', 'table': table}]
    # direct probes of the motor's API at arbitrary (speed, duty) points
    pts = []
    for _ in range(r.randint(3, 12)):
        c = r.random()
        if c < 0.35 and dlim:
            base = dlim * r.choice([1, -1])
            d = r.choice([base, math.nextafter(base, 2), math.nextafter(base, -2),
                          base * (1 + 1e-9), base * (1 - 1e-9), base / 2])
        elif c < 0.5:
            d = r.choice([1, -1, 0, 1.0, -1.0])
        else:
            d = round(r.uniform(-1, 1), 5)
        wv = r.choice([0.0, msi['w0'], -msi['w0'], r.uniform(-3, 3) * msi['w0']])
        pt = {'w': g.q('AngularSpeed', wv), 'pwm': d}
        if g.chance(0.4):
            pt['relabel'] = r.choice(si.units_of('Torque'))
            pt['inplace'] = g.chance(0.5)
        pts.append(pt)
    if g.chance(0.3):
        scn['schedule'].append({'op': 'set_pwm', 'value': round(r.uniform(-1, 1), 3)})
        scn['schedule'].append({'op': 'set_pwm', 'invalid': True,
                                'value': r.choice([1.5, -1.5, 3, -3])})
        scn['schedule'].append(gen_run(g, k, n=r.randint(3, 15),
                                       kdt=g.logu(0.02, 0.8), control=False))
    scn['schedule'].append({'op': 'motor_probe', 'points': pts})
    return scn


PROFILES['motor'] = gen_motor


# ---------------------------------------------------------------------------
# C10 / C20: declaration machine

def gen_decl(g):
    r = g.rng
    els = []

    def add(e, name=None):
        e['name'] = name or f"n{len(els)}"
        els.append(e)
        return len(els) - 1
    n_mot = r.choice([1, 1, 2])
    for _ in range(n_mot):
        add(g.motor('m'))
    for _ in range(r.choice([0, 1, 2])):
        add({'kind': 'Flywheel', 'J': g.inertia()})
    modules = [g.q('Length', x * 1e-3) for x in r.sample([0.5, 1, 2, 3, 4], 2)]
    helixes = [g.q('Angle', x * pi / 180)
               for x in r.sample([0, 10, 15, 20, 30], 2)]
    helixes = [[0 if h[0] == 0 else h[0], h[1]] for h in helixes]
    for _ in range(r.choice([2, 3, 4, 5])):
        add({'kind': 'SpurGear', 'z': g.teeth(), 'J': g.inertia(),
             'm': list(r.choice(modules)) if g.chance(0.7) else None,
             'b': None, 'E': None})
    for _ in range(r.choice([0, 2, 3])):
        add({'kind': 'HelicalGear', 'z': g.teeth(), 'J': g.inertia(),
             'beta': list(r.choice(helixes)),
             'm': list(r.choice(modules)) if g.chance(0.7) else None,
             'b': None, 'E': None})
    alphas = r.sample([14.5, 20.0, 25.0, 30.0], 2)
    for _ in range(r.choice([0, 1, 2, 2])):
        a = r.choice(alphas) if g.chance(0.8) else alphas[0]
        hmax = rm.WORM_TABLE[a][0]
        beta = g.q('Angle', (r.uniform(2.0, hmax * 0.98) if g.chance(0.75)
                             else r.uniform(hmax * 0.9, hmax * 0.98)) * pi / 180)
        add({'kind': 'WormGear', 'starts': r.choice([1, 2, 3, 4]),
             'J': g.inertia(), 'beta': list(beta), 'alpha': [a, 'deg'],
             'd': None})
        add({'kind': 'WormWheel', 'z': g.teeth(), 'J': g.inertia(),
             'beta': list(beta), 'alpha': [a, 'deg'], 'm': None, 'b': None})
    # duplicate names, inside and outside the chain
    if g.chance(0.3):
        i, j = r.sample(range(len(els)), 2)
        els[j]['name'] = els[i]['name']
    if g.chance(0.15):
        # names that differ only by letter case are different names; mixed
        # with exact duplicates
        idx = r.sample(range(len(els)), min(len(els), r.choice([2, 3, 3])))
        base = els[idx[0]]['name']
        variants = [base, base.upper(), base]
        for k_, ii in enumerate(idx):
            els[ii]['name'] = variants[k_ % 3] if g.chance(0.8) else base.upper()
    esi = [rm.elem_si(e) for e in els]
    model = rm.DeclModel(esi)
    decls = []
    n_decl = r.randint(1, g.cfg.get('max_decls', 30))
    tail = 0
    by_kind = {}
    for i, e in enumerate(els):
        by_kind.setdefault(e['kind'], []).append(i)

    def reaches(a, b):
        """does a's drive chain reach b (model state)?"""
        seen = set()
        while a is not None and a not in seen:
            if a == b:
                return True
            seen.add(a)
            a = model.drives[a]
        return False

    def valid_for(m):
        """a declaration with master m that the documentation accepts."""
        km = els[m]['kind']
        opts = []
        for s, e in enumerate(els):
            if s == m or e['kind'] == 'DCMotor':
                continue
            opts.append({'op': 'joint', 'm': m, 's': s})
            ks = e['kind']
            if km in ('SpurGear', 'HelicalGear') and ks == km:
                opts.append({'op': 'gear', 'm': m, 's': s,
                             'eff': r.choice([1, 0.9, 0.5, 0,
                                              round(r.uniform(0, 1), 3)])})
            if {km, ks} == {'WormGear', 'WormWheel'}:
                opts.append({'op': 'worm', 'm': m, 's': s,
                             'f': r.choice([0, 0.05, 0.2, 0.5, 0.95, 1,
                                            round(r.uniform(0, 1), 3)])})
        r.shuffle(opts)
        for d in opts:
            if model.judge(d)[0] == 'accept' and not reaches(d['s'], d['m']):
                return d
        return None

    def reject_decl():
        kinds = ['self', 'motor_slave', 'eff_range', 'eff_type', 'f_range',
                 'f_type', 'module', 'helix', 'spur_helical', 'alpha',
                 'worm_worm', 'wheel_wheel', 'not_gear', 'not_worm',
                 'worm_eff_range']
        r.shuffle(kinds)
        for kd in kinds:
            d = None
            sp, he = by_kind.get('SpurGear', []), by_kind.get('HelicalGear', [])
            wg, ww = by_kind.get('WormGear', []), by_kind.get('WormWheel', [])
            gears = sp + he
            if kd == 'self':
                i = r.randrange(1, len(els))
                d = r.choice([{'op': 'joint', 'm': i, 's': i}] +
                             ([{'op': 'gear', 'm': i, 's': i, 'eff': 0.9}]
                              if i in gears else []))
            elif kd == 'motor_slave':
                i = r.randrange(len(els))
                if i != 0:
                    d = r.choice([{'op': 'joint', 'm': i, 's': 0},
                                  {'op': 'gear', 'm': i, 's': 0, 'eff': 0.9}])
            elif kd in ('eff_range', 'eff_type') and len(sp) >= 2:
                a, b = r.sample(sp, 2)
                bad = r.choice([1.5, -0.1, 2, -1, 1.0000001]) \
                    if kd == 'eff_range' else r.choice(['0.9', None, [0.9],
                                                       {'fraction': [9, 10]},
                                                       {'np': 'float32', 'v': 0.9},
                                                       {'np': 'int64', 'v': 1}])
                d = {'op': 'gear', 'm': a, 's': b, 'eff': bad}
            elif kd in ('f_range', 'f_type') and wg and ww:
                bad = r.choice([1.5, -0.1, 2, -1]) if kd == 'f_range' \
                    else r.choice(['0.2', None, {'fraction': [1, 5]},
                                   {'np': 'float32', 'v': 0.2}])
                a, b = r.choice(wg), r.choice(ww)
                if g.chance(0.5):
                    a, b = b, a
                d = {'op': 'worm', 'm': a, 's': b, 'f': bad}
            elif kd == 'module':
                c = [(a, b) for a in gears for b in gears if a != b and
                     els[a]['kind'] == els[b]['kind'] and els[a]['m'] and
                     els[b]['m'] and els[a]['m'] != els[b]['m']]
                if c:
                    a, b = r.choice(c)
                    d = {'op': 'gear', 'm': a, 's': b, 'eff': 0.9}
            elif kd == 'helix':
                c = [(a, b) for a in he for b in he if a != b and
                     els[a]['beta'] != els[b]['beta']]
                if c:
                    a, b = r.choice(c)
                    d = {'op': 'gear', 'm': a, 's': b, 'eff': 0.9}
            elif kd == 'spur_helical' and sp and he:
                a, b = r.choice(sp), r.choice(he)
                if g.chance(0.5):
                    a, b = b, a
                d = {'op': 'gear', 'm': a, 's': b, 'eff': 0.9}
            elif kd == 'alpha':
                c = [(a, b) for a in wg for b in ww
                     if els[a]['alpha'] != els[b]['alpha']]
                if c:
                    a, b = r.choice(c)
                    if g.chance(0.5):
                        a, b = b, a
                    d = {'op': 'worm', 'm': a, 's': b, 'f': 0.1}
            elif kd == 'worm_worm' and len(wg) >= 2:
                a, b = r.sample(wg, 2)
                d = {'op': 'worm', 'm': a, 's': b, 'f': 0.1}
            elif kd == 'wheel_wheel' and len(ww) >= 2:
                a, b = r.sample(ww, 2)
                d = {'op': 'worm', 'm': a, 's': b, 'f': 0.1}
            elif kd == 'not_gear' and gears:
                others = by_kind.get('Flywheel', []) + wg + [0]
                a, b = r.choice(others), r.choice(gears)
                if g.chance(0.5):
                    a, b = b, a
                d = {'op': 'gear', 'm': a, 's': b, 'eff': 0.9}
            elif kd == 'not_worm' and (wg or ww) and gears:
                a, b = r.choice(wg + ww), r.choice(gears + [0])
                if g.chance(0.5):
                    a, b = b, a
                d = {'op': 'worm', 'm': a, 's': b, 'f': 0.1}
            elif kd == 'worm_eff_range' and wg and ww:
                # a friction inside [0, 1] that drives the documented
                # efficiency formula outside [0, 1]
                c = [(a, b) for a in wg for b in ww
                     if els[a]['alpha'] == els[b]['alpha']]
                r.shuffle(c)
                for a, b in c:
                    # either orientation: with a steep helix (30 deg
                    # pressure angle, helix above ~41 deg) the worm-drives
                    # formula goes negative too
                    orients = [(b, a), (a, b)]
                    r.shuffle(orients)
                    for mm, ss in orients:
                        for f in (1.0, 0.99, 0.9, 0.7, 0.5, 0.3):
                            dd = {'op': 'worm', 'm': mm, 's': ss, 'f': f}
                            eta = model.worm_efficiency(dd)
                            if eta is not None and (eta < -0.01 or eta > 1.01):
                                d = dd
                                break
                        if d:
                            break
                    if d:
                        break
            if d is not None and model.judge(d)[0] == 'reject':
                d['fault'] = kd
                return d
        return None

    for _ in range(n_decl):
        c = r.random()
        d = None
        if c < 0.5:
            d = valid_for(tail)
            if d is not None:
                tail_next = d['s']
        elif c < 0.7:
            d = valid_for(r.randrange(len(els)))
        else:
            d = reject_decl()
        if d is None:
            continue
        decls.append(d)
        if model.judge(d)[0] == 'accept':
            model.apply(d)
            if d['m'] == tail:
                tail = d['s']
            if d['op'] == 'worm' and g.chance(0.5):
                # the same pair declared again with another friction (zero,
                # either side of the self-locking threshold): the flag and
                # the efficiency must follow the LAST declaration
                thr = math.cos(esi[d['m']]['alpha']) * math.tan(esi[d['m']]['beta'])
                for f2 in r.sample([0, 0.0, thr * 0.5, thr * 0.98, thr * 1.02,
                                    min(1.0, thr * 2), 0.9, 1], r.choice([1, 2])):
                    d2 = dict(d, f=float(f2) if not isinstance(f2, int) else f2)
                    d2.pop('fault', None)
                    if model.judge(d2)[0] == 'accept':
                        decls.append(d2)
                        model.apply(d2)
                if els[d['m']]['kind'] == 'WormGear' and g.chance(0.35):
                    # ... and exactly on the threshold float the library
                    # itself computes (resolved by the executor), or one or
                    # two ulps beside it: "f > cos(alpha)*tan(beta)" is strict
                    d3 = dict(d, f=float(thr),
                              f_at={'ulps': r.choice([0, 0, 1, -1, 2])})
                    d3.pop('fault', None)
                    if model.judge(d3)[0] in ('accept', 'undecided'):
                        decls.append(d3)
                        model.apply(d3)
    scn = {'seed': g.seed, 'profile': 'decl', 'elements': els, 'decls': decls,
           'motor': 0, 'track_relations': True, 'assemble': True,
           'wall': 1.0, 'schedule': []}
    sched = [{'op': 'probe_immutable'}]
    # post-assembly re-declarations must not change the assembled powertrain
    for _ in range(r.choice([0, 1, 2])):
        d = valid_for(r.randrange(len(els)))
        if d is not None:
            model.apply(d)
            sched.append({'op': 'redeclare', 'decl': d})
    sched.append({'op': 'probe_immutable'})
    scn['schedule'] = sched
    return scn


PROFILES['decl'] = gen_decl


# ---------------------------------------------------------------------------
# C09: gear force and stresses

def gen_stress(g):
    r = g.rng
    scn, model, chain = base_scenario(
        g, 'stress', n_target=r.choice([3, 4, 5, 6, 8]),
        force_worm=True if g.chance(0.4) else None,
        data_level=r.choice([2, 2, None, None, None]))
    # widen the teeth range: beyond the end of the Lewis table too
    for e in scn['elements']:
        if 'z' in e and g.chance(0.25):
            e['z'] = r.choice([10, 11, 13, 23, 44, 99, 101, 149, 250, 399,
                               499, 500, 501, 600])
    model = model_of(scn['elements'], scn['decls'])
    k = rm.rate_constant(model, chain)[0]
    scn['load'] = gen_load(g, model, chain,
                           overload=r.choice([0.2, 0.8, 1.5, 4.0]),
                           families=r.choice([['const'], ['const', 'visc'],
                                              ['const', 'sintime'], ['step']]))
    scn['init'] = gen_init(g, model, chain)
    g.cfg = dict(g.cfg)
    g.cfg['steps'] = g.cfg.get('steps', (2, 30))
    sched = [gen_run(g, k, kdt=g.logu(0.02, 1.0))]
    if g.chance(0.3):
        sched.append(gen_run(g, k, kdt=g.logu(0.02, 1.0)))
    scn['schedule'] = sched
    add_control(g, scn, model, chain, p=0.3, kinds=[['Scripted']][0])
    if g.chance(0.3):
        add_remating_phase(g, scn, model, chain, k)
    return scn


def add_remating_phase(g, scn, model, chain, k):
    """A second phase on the same objects: after a reset, the master of one
    gear mating is replaced by a new gear (other teeth number, modulus,
    inertia), the powertrain is assembled again and simulated again.  State
    that an element cached while it was mated with the old gear must not
    survive this."""
    import copy
    r = g.rng
    els, decls = scn['elements'], scn['decls']
    masters_of_gear = {d['m'] for d in decls if d['op'] == 'gear'}
    cands = []
    for d in decls:
        if d['op'] != 'gear' or d['m'] not in chain or d['s'] not in chain:
            continue
        a, b = d['m'], d['s']
        if b in masters_of_gear:          # idler: keep the roles simple
            continue
        into_a = [x for x in decls if x['s'] == a and x['m'] in chain]
        if len(into_a) != 1 or into_a[0]['op'] != 'joint':
            continue
        cands.append((into_a[0]['m'], a, b))
    variant = r.choice(['replace_master', 'replace_master', 'insert_flywheel',
                        'worm_friction'])
    worms = [d for d in decls if d['op'] == 'worm' and d['m'] in chain and
             els[d['m']]['kind'] == 'WormGear']
    if variant == 'worm_friction' and worms:
        # the worm mating declared again with a friction on either side of
        # the self-locking threshold, then a NEW powertrain: its flag, the
        # efficiency and the lock behaviour must follow the last declaration
        d = dict(r.choice(worms))
        alpha = si.q_si('Angle', els[d['m']]['alpha'])
        beta = si.q_si('Angle', els[d['m']]['beta'])
        thr, fmax = worm_f_range(alpha, beta, True)
        if g.chance(0.5) and thr * 1.02 < fmax * 0.98:
            d['f'] = float(r.uniform(thr * 1.02, fmax * 0.98))
        else:
            d['f'] = float(r.uniform(0.0, min(thr, fmax) * 0.98))
        scn['schedule'].append({'op': 'reset', 'reapply': False})
        scn['next'] = {'elements': [], 'decls': [d],
                       'schedule': [gen_run(g, k, kdt=g.logu(0.02, 0.8))]}
        return
    if variant == 'insert_flywheel':
        joints = [d for d in decls if d['op'] == 'joint' and d['m'] in chain
                  and d['s'] in chain]
        if joints:
            d = r.choice(joints)
            fw = {'kind': 'Flywheel', 'J': g.inertia(),
                  'name': f'e{len(els)}_newfw'}
            i = len(els)
            scn['schedule'].append({'op': 'reset', 'reapply': False})
            scn['next'] = {'elements': [fw],
                           'decls': [{'op': 'joint', 'm': d['m'], 's': i},
                                     {'op': 'joint', 'm': i, 's': d['s']}],
                           'schedule': [gen_run(g, k, kdt=g.logu(0.02, 0.8))]}
            return
    if not cands:
        return
    prev, a, b = r.choice(cands)
    new = copy.deepcopy(els[a])
    new['name'] = f'e{len(els)}_new'
    new['z'] = g.teeth()
    new['J'] = g.inertia()
    if new.get('E') is not None:
        new['E'] = g.q('Stress', g.logu(1e9, 2.1e11))
    ia = len(els)
    scn['schedule'].append({'op': 'reset', 'reapply': False})
    g.cfg = dict(g.cfg)
    nsched = [gen_run(g, k, kdt=g.logu(0.02, 0.8))]
    scn['next'] = {
        'elements': [new],
        'decls': [{'op': 'joint', 'm': prev, 's': ia},
                  {'op': 'gear', 'm': ia, 's': b,
                   'eff': round(r.uniform(0.6, 1.0), 3)}],
        'schedule': nsched,
    }


PROFILES['stress'] = gen_stress


# ---------------------------------------------------------------------------
# C04: convergence to the closed form

def gen_conv(g):
    r = g.rng
    hoist = g.chance(0.12)
    if hoist:
        # a SELF-LOCKING chain whose load aids the commanded motion (a worm
        # hoist lowering its weight): speed and duty cycle keep the same
        # sign, the lock never engages and the closed form applies
        scn, model, chain = base_scenario(
            g, 'conv', n_target=r.choice([3, 4, 5, 6]), force_worm=True,
            self_locking=True, data_level=0, allow_wheel_master=False)
    else:
        scn, model, chain = base_scenario(
            g, 'conv', n_target=r.choice([2, 3, 4, 5, 6, 8]),
            force_worm=True if g.chance(0.25) else False, self_locking=False,
            data_level=0, allow_reroute=g.chance(0.12))
    mot = scn['elements'][0]
    msi = model.e[0]
    k1, R, E, J = rm.rate_constant(model, chain)
    dlim = rm.motor_dlim(msi)
    if dlim is not None:
        lo = min(0.95, max(0.15, dlim * 2.0))
        D = r.choice([1, 1.0, r.uniform(lo, 1.0), -r.uniform(lo, 1.0), -1])
    else:
        D = r.choice([1, 1.0, 0.5, -0.7, 0])       # ignored by the law
    stall = msi['Tmax'] * E * R
    TL = stall * r.choice([0.0, r.uniform(-1, 1), r.uniform(-0.9, 0.9),
                           r.uniform(1.0, 2.5), -r.uniform(1.0, 2.5)])
    w_out = msi['w0'] / R
    w_init = r.choice([0.0, r.uniform(-1.5, 1.5) * w_out])
    if hoist:
        if D == 0:
            D = 1
        sgn = 1 if D > 0 else -1
        TL = -sgn * stall * r.choice([0.0, r.uniform(0.05, 1.0),
                                      r.uniform(1.0, 2.5)])
        w_init = sgn * abs(w_init)
    scn['load'] = {'terms': [{'t': 'const', 'c': TL}], 'unit': g.unit('Torque')}
    scn['init'] = {'position': g.q('AngularPosition', r.uniform(-3, 3)),
                   'speed': g.q('AngularSpeed', w_init),
                   'pwm': D}
    via_rule = g.chance(0.3)
    scn['conv'] = {'kdts': [0.2, 0.1, 0.05, 0.025] +
                   ([0.0125, 0.00625] if g.cfg.get('fine') else []),
                   'horizon': r.choice([3, 4, 5, 6]),
                   'split': g.chance(0.4), 'via_rule': via_rule,
                   'split_at': [r.uniform(0.1, 0.9), r.uniform(0.1, 0.9)],
                   'unit': g.unit('TimeInterval')}
    if via_rule:
        scn['rules'] = [{'kind': 'ConstantPWM', 'start': g.q('Time', 0.0),
                         'duration': g.q('TimeInterval', 1e30),
                         'value': D}]
        scn['init']['pwm'] = r.choice([None, 1, D])
    scn['schedule'] = []
    return scn


PROFILES['conv'] = gen_conv


# ---------------------------------------------------------------------------
# C19: quantity programs and constructors with a non-physical parameter

def gen_quant(g):
    r = g.rng
    kinds = list(si.UNITS)
    constrained = ['Length', 'Surface', 'InertiaMoment', 'TimeInterval', 'Angle']
    prog = []
    heap_kinds = []          # kinds of the objects the program expects alive

    def mag():
        c = r.random()
        if c < 0.08:
            return 0
        if c < 0.12:
            return 0.0
        m = g.logu(1e-30, 1e30) if g.chance(0.25) else g.logu(1e-3, 1e3)
        if g.chance(0.04):
            m = g.logu(5e-324, 1e-300)     # down to the subnormal range
        if g.chance(0.3):
            m = float(r.randint(1, 9))
        if g.chance(0.35):
            m = -m
        if g.chance(0.1):
            m = int(m) if abs(m) < 1e15 else m
        return m
    n_steps = r.randint(3, g.cfg.get('max_steps', 14))
    for _ in range(n_steps):
        c = r.random()
        if not heap_kinds or c < 0.3:
            kind = r.choice(constrained) if g.chance(0.65) else r.choice(kinds)
            v = mag()
            if kind in constrained and g.chance(0.6):
                v = abs(v) if v else 1.0
            prog.append({'op': 'new', 'kind': kind, 'v': v,
                         'u': r.choice(si.units_of(kind))})
            heap_kinds.append(kind)      # optimistic; failures are fine
            continue
        a = r.randrange(len(heap_kinds))
        if c < 0.55:
            op = r.choice(['add', 'sub', 'sub', 'mul', 'div'])
            if g.chance(0.55):
                # operand of the same kind if one exists (F-BADPARAM: a
                # difference or product that leaves the valid range)
                same = [j for j, kk in enumerate(heap_kinds)
                        if kk == heap_kinds[a] or
                        {kk, heap_kinds[a]} in ({'Angle', 'AngularPosition'},
                                                {'Time', 'TimeInterval'})]
                b = r.choice(same)
                st = {'op': op, 'a': a, 'b': b}
            elif g.chance(0.5):
                st = {'op': op, 'a': a, 'b': r.randrange(len(heap_kinds))}
            else:
                st = {'op': op, 'a': a, 'kb': mag()}
                if g.chance(0.3) and op == 'mul':
                    st = {'op': op, 'ka': mag(), 'b': a}
            prog.append(st)
            heap_kinds.append(heap_kinds[a])
        elif c < 0.65:
            prog.append({'op': r.choice(['abs', 'neg', 'neg']), 'a': a})
            heap_kinds.append(heap_kinds[a])
        else:
            prog.append({'op': 'to', 'a': a, 'ui': r.randrange(0, 17),
                         'inplace': g.chance(0.5)})
            heap_kinds.append(heap_kinds[a])
    # indices may exceed the real heap when earlier steps failed: clamp at
    # execution time is not possible, so renumber against a dry model where
    # every step succeeds... simpler: operands index modulo the live heap
    scn = {'seed': g.seed, 'profile': 'quant', 'program': prog,
           'elements': [], 'decls': [], 'schedule': [],
           'badparams': gen_badparams(g)}
    return scn


def gen_badparams(g):
    r = g.rng
    out = []
    u = g.unit

    def q(kind, si_value):
        return g.q(kind, si_value, r.choice(si.units_of(kind)))
    good_motor = {'w0': q('AngularSpeed', 300.0), 'Tmax': q('Torque', 0.5)}
    cases = [
        ('no_load_speed<=0', 'DCMotor', dict(good_motor, w0=q('AngularSpeed', r.choice([0.0, -1.0, -300.0])))),
        ('maximum_torque<=0', 'DCMotor', dict(good_motor, Tmax=q('Torque', r.choice([0.0, -0.1, -5.0])))),
        ('no_load_speed<=0 and maximum_torque<=0', 'DCMotor', dict(good_motor, w0=q('AngularSpeed', r.choice([-1.0, -300.0])), Tmax=q('Torque', r.choice([-0.1, -5.0])))),
        # (each optional current alone, or together with the other one)
        ('no_load_current<0', 'DCMotor', dict(good_motor, i0=q('Current', r.choice([-0.01, -1.0])),
                                              **({'imax': q('Current', 2.0)} if g.chance(0.5) else {}))),
        ('maximum_current<=0', 'DCMotor', dict(good_motor, imax=q('Current', r.choice([0.0, -2.0, -0.0])),
                                               **({'i0': q('Current', 0.1)} if g.chance(0.5) else {}))),
        ('no_load_current>=maximum', 'DCMotor', dict(good_motor, i0=q('Current', r.choice([2.0, 3.0, 2.0000001])), imax=q('Current', 2.0))),
        ('pwm_outside', 'DCMotor', dict(good_motor, pwm=r.choice([1.0000001, -1.0000001, 2, -7.5]))),
        ('teeth<minimum', 'SpurGear', {'z': r.choice([9, 5, 1, 0, -3])}),
        ('elastic_modulus<=0', 'SpurGear', {'z': 20, 'E': [r.choice([0.0, -1.0, -210.0]), r.choice(si.units_of('Stress'))]}),
        ('helix>=90deg', 'HelicalGear', dict(
            {'beta': q('Angle', r.choice([90.0, 90.5, 120.0, 179.0, 180.0, 269.0,
                                          271.0, 300.0, 359.5, 360.0, 370.0, 449.0,
                                          451.0, 725.0, r.uniform(90, 2000)]) * pi / 180)},
            **({'bare': True} if g.chance(0.5) else {}))),
    ]
    alpha = r.choice([14.5, 20.0, 25.0, 30.0])
    hmax = rm.WORM_TABLE[alpha][0]
    # the tabulated pressure angle in any angle unit (exact literals where
    # the unit allows it)
    au = r.choice(si.units_of('Angle'))
    exact = {'deg': 1, 'arcmin': 60, 'arcsec': 3600}
    aq = [alpha * exact[au], au] if au in exact else \
        g.q('Angle', alpha * pi / 180, au)
    cases += [
        ('worm_helix>limit', r.choice(['WormGear', 'WormWheel']),
         {'alpha': aq,
          'beta': q('Angle', (hmax + r.choice([0.5, 2.0, 20.0])) * pi / 180)}),
        ('worm_starts<1', 'WormGear', {'alpha': list(aq), 'starts': r.choice([0, -1]),
                                       'beta': q('Angle', 5 * pi / 180)}),
    ]
    for what, comp, params in r.sample(cases, r.randint(2, 5)):
        out.append({'what': what, 'component': comp, 'params': params})
    return out


PROFILES['quant'] = gen_quant
