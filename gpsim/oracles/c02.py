"""C02 - torque propagation and balance along the chain."""
from .. import refmodel as rm
from .common import (View, Violation, close, POS, SPD, TQ, DTQ, LTQ, pair_tag)

PROP = 'C02'


def check(scn, H, view=None):
    v = view or View(scn, H)
    out = []
    if not v.ok:
        return out, v.stats
    N = v.N
    load_on = H.get('load_on')
    if load_on is None or load_on != v.chain[-1]:
        return out, v.stats
    if scn.get('load2') is not None:
        # an external torque on an intermediate gear as well: outside the
        # quantifier of C02 ("the external load on the last element")
        v.stats['skipped_second_load'] += 1
        return out, v.stats
    # a run of a legal history that dies with an internal error records no
    # torque at all for the instant it was computing
    for ep in v.epochs:
        for seg in ep['segments']:
            if seg['exc'] is not None and seg['exc'][0] in (
                    'TypeError', 'AttributeError', 'KeyError', 'IndexError',
                    'ZeroDivisionError', 'NameError', 'UnboundLocalError'):
                out.append(Violation(PROP, f"run-raises-internal-error/{seg['exc'][0]}", {
                    'epoch': ep['index'], 'instant': seg['i1'] - 1,
                    'message': seg['exc'][1],
                    'ops_before': [o['op'] for o in scn['schedule'][:seg['op']]]}))
                return out, v.stats
    calls = {}
    for c in H['load_calls']:
        calls.setdefault((c['epoch'], c['k']), []).append(c)
    for ep in v.epochs:
        if ep['dump'] is None:
            continue
        if not v.finite_epoch(ep):
            v.stats['discarded_nonfinite'] += 1
            continue
        n = v.n_valid(ep)
        t = ep['dump']['time']
        pos = v.series(ep, N - 1, POS)
        spd = v.series(ep, N - 1, SPD)
        L = [v.series(ep, p, LTQ) for p in range(N)]
        D = [v.series(ep, p, DTQ) for p in range(N)]
        T = [v.series(ep, p, TQ) for p in range(N)]
        w0 = v.series(ep, 0, SPD)
        pwm = v.series(ep, 0, 'pwm')
        done = set()

        def viol(sig, k, **kw):
            if sig in done:
                return
            done.add(sig)
            kw.update(epoch=ep['index'], instant=k)
            out.append(Violation(PROP, sig, kw))
        for k in range(n):
            v.stats['instants'] += 1
            eta = v.eta_at(ep, k)
            # (a) the external load: one call per instant, on the recorded
            #     state and this instant's time
            cs = calls.get((ep['index'], k), [])
            if len(cs) != 1:
                viol('load-call/count', k, calls=len(cs))
            else:
                c = cs[0]
                if not close(c['t'], t[k], scale=t[-1] if t else None):
                    viol('load-call/time', k, passed=c['t'], instant_time=t[k])
                if not close(c['th'], pos[k]):
                    viol('load-call/position', k, passed=c['th'], recorded=pos[k])
                if not close(c['w'], spd[k]):
                    viol('load-call/speed', k, passed=c['w'], recorded=spd[k])
                if not close(c['v'], L[N - 1][k]):
                    viol('load-call/value', k, returned=c['v'],
                         recorded=L[N - 1][k])
            # (b) load torque upstream
            for p in range(N - 1, 0, -1):
                exp = L[p][k] / (eta[p] * v.r[p]) if eta[p] != 0 else None
                if exp is None:
                    continue
                if not close(L[p - 1][k], exp):
                    viol(f'load-upstream/{pair_tag(v, p - 1)}', k, pair=p - 1,
                         upstream=L[p - 1][k], downstream=L[p][k],
                         eta=eta[p], ratio=v.r[p])
            # (c) motor characteristic
            if pwm is not None and k < len(pwm) and pwm[k] is not None:
                ref = rm.motor_torque(v.mot, w0[k], pwm[k])
                ts, _ = rm.motor_scales(v.mot, w0[k], pwm[k])
                if not close(D[0][k], ref, scale=ts):
                    viol('motor-law', k, recorded=D[0][k], reference=ref,
                         speed=w0[k], pwm=pwm[k])
            # (d) driving torque downstream
            for p in range(1, N):
                exp = D[p - 1][k] * eta[p] * v.r[p]
                if not close(D[p][k], exp):
                    viol(f'drive-downstream/{pair_tag(v, p - 1)}', k, pair=p - 1,
                         upstream=D[p - 1][k], downstream=D[p][k],
                         eta=eta[p], ratio=v.r[p])
            # (e) net torque
            for p in range(N):
                if not close(T[p][k], D[p][k] - L[p][k],
                             scale=max(abs(D[p][k]), abs(L[p][k]))):
                    viol(f'net/{v.esi[v.chain[p]]["kind"]}', k, pos=p,
                         torque=T[p][k], driving=D[p][k], load=L[p][k])
        v.stats['eta_lt_1_pairs'] += sum(1 for e in v.eta[1:] if e != 1)
    return out, v.stats
