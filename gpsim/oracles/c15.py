"""C15 - each control rule applies in its documented window with its
documented value (evaluated on the state captured when apply() ran)."""
from math import sqrt

from .. import si
from .. import refmodel as rm
from .common import View, Violation, close

PROP = 'C15'


def nontrivial(st):
    return st.get('rule_calls', 0) > 0


def eta_total(v):
    """documented: product of the efficiencies of all gear matings."""
    e = 1.0
    for x in v.eta[1:]:
        e *= x
    return e


def judge_window(margin, band):
    """True/False, or None when the window edge is within rounding."""
    if abs(margin) <= band:
        return None
    return margin >= 0


def check(scn, H, view=None):
    v = view or View(scn, H)
    out = []
    st = v.stats
    if not v.ok:
        return out, st
    rules = scn.get('rules', [])
    mot = v.mot
    done = set()

    def viol(sig, **kw):
        if sig in done:
            return
        done.add(sig)
        out.append(Violation(PROP, sig, kw))
    by_instant = {}
    ep_by_index = {e['index']: e for e in v.epochs}
    for c in H['rule_calls']:
        rule = rules[c['rule']]
        eta_t = 1.0
        ep_c = ep_by_index.get(c['epoch'])
        for x in (v.eta_at(ep_c, c['k']) if ep_c else v.eta)[1:]:
            eta_t *= x
        kind = rule['kind']
        by_instant.setdefault((c['epoch'], c['k']), []).append(c)
        if kind == 'Scripted':
            continue
        st['rule_calls'] += 1
        st['calls_' + kind] += 1
        if 'exc' in c:
            if kind == 'StartProportional' and 'pwm_min' in c['exc'][1]:
                st['missing_pwm_min'] += 1      # documented ValueError
                continue
            viol(f'{kind}/raises-{c["exc"][0]}', instant=c['k'],
                 message=c['exc'][1], motor_load_torque=c.get('L0'),
                 position=c.get('th'))
            continue
        p = c['p']
        if kind == 'ConstantPWM':
            s = si.q_si('Time', rule['start'])
            d = si.q_si('TimeInterval', rule['duration'])
            t = c['t']
            band = 1e-9 * max(abs(t), abs(s), abs(s + d)) + 4e-9
            a = judge_window(t - s, band)
            b = judge_window(s + d - t, band)
            tr = c.get('t_raw')
            if tr and tr[1] == rule['start'][1] == rule['duration'][1]:
                # one unit everywhere: the documented inclusive window can
                # be decided exactly in rational arithmetic when the time
                # sits exactly on an edge (a difference that is exactly
                # representable is computed exactly by IEEE subtraction)
                from fractions import Fraction as F
                ft, fs, fd = F(tr[0]), F(rule['start'][0]), F(rule['duration'][0])
                if ft == fs:
                    a = True
                    st['F_BOUNDARY_exact_edge'] += 1
                if ft - fs == fd:
                    b = True
                    st['F_BOUNDARY_exact_edge'] += 1
            if a is None or b is None:
                st['near_threshold_skips'] += 1
                st['F_BOUNDARY_window_edge'] += 1
                continue
            active = a and b
            if active != (p is not None):
                viol('ConstantPWM/window', instant=c['k'], time=t, start=s,
                     end=s + d, proposed=p)
            elif active:
                st['active_ConstantPWM'] += 1
                if p != rule['value']:
                    viol('ConstantPWM/value', instant=c['k'], proposed=p,
                         constant=rule['value'])
            continue
        th = c['th']
        tg = si.q_si('AngularPosition', rule['target'])
        if kind == 'ReachAngularPosition':
            tb = si.q_si('Angle', rule['brake'])
            L0 = c['L0']
            err = (L0 / mot['Tmax']) * tb / eta_t if L0 is not None else 0.0
            ths = tg - tb + err
            band = 1e-9 * max(abs(th), abs(tg), tb, abs(err)) + 7e-12
            a = judge_window(th - ths, band)
            if a is None:
                st['near_threshold_skips'] += 1
                continue
            if a != (p is not None):
                viol('ReachAngularPosition/window', instant=c['k'],
                     position=th, braking_start=ths, target=tg, braking_angle=tb,
                     static_error=err, eta_t=eta_t, load_torque=L0, proposed=p)
            elif a:
                st['active_ReachAngularPosition'] += 1
                ref = 1.0 - (th - ths) / tb
                sc = max(1.0, abs(th) / tb, abs(ths) / tb)
                if not close(p, ref, scale=sc):
                    viol('ReachAngularPosition/value', instant=c['k'],
                         proposed=p, reference=ref, position=th,
                         braking_start=ths, eta_t=eta_t)
            continue
        band = 1e-9 * max(abs(th), abs(tg)) + 7e-12
        a = judge_window(tg - th, band)
        if a is None:
            st['near_threshold_skips'] += 1
            continue
        if a != (p is not None):
            viol(f'{kind}/window', instant=c['k'], position=th, target=tg,
                 proposed=p)
            continue
        if not a:
            continue
        st['active_' + kind] += 1
        if kind == 'StartProportional':
            i0, imax = mot['i0'], mot['imax']
            refs = []
            for L in (c['L0_first'], c['L0']):
                if L is None:
                    continue
                dc = (1.0 / eta_t) * (L / mot['Tmax']) * ((imax - i0) / imax) \
                    + i0 / imax
                dmin = rule['mult'] * dc if dc != 0 else rule.get('pwm_min')
                if dmin is None:
                    continue
                refs.append((1.0 - dmin) * th / tg + dmin)
            sc = max(1.0, abs(th / tg)) * max(1.0, max(abs(x) for x in refs)
                                               if refs else 1.0)
            if refs and not any(close(p, ref, scale=sc) for ref in refs):
                viol('StartProportional/value', instant=c['k'], proposed=p,
                     references=refs, position=th, target=tg, eta_t=eta_t,
                     load_first=c['L0_first'], load_now=c['L0'])
        else:
            i_lim = si.q_si('Current', rule['limit'])
            ref = rm.start_limit_current_value(mot, c['w'], i_lim)
            if ref is None:
                st['negative_discriminant'] += 1
                continue
            sc = max(1.0, abs(c['w']) / mot['w0'])
            if not close(p, ref, scale=sc):
                viol('StartLimitCurrent/value', instant=c['k'], proposed=p,
                     reference=ref, speed=c['w'], limit=i_lim)
    # consequence: while StartLimitCurrent is in force and not clipped, the
    # recorded motor current equals the limit
    for ep in v.epochs:
        if ep['dump'] is None:
            continue
        cur = v.series(ep, 0, 'electric current')
        pwm = v.series(ep, 0, 'pwm')
        if not cur or not pwm:
            continue
        n = min(len(cur), len(pwm))
        dlim = rm.motor_dlim(mot)
        for k in range(n):
            cs = by_instant.get((ep['index'], k), [])
            app = [c for c in cs if c.get('p') is not None]
            if len(app) != 1:
                continue
            c = app[0]
            rule = rules[c['rule']]
            if rule['kind'] != 'StartLimitCurrent' or \
                    rule['tach'] != v.chain[0]:
                continue
            p = c['p']
            if abs(p) > 1 or dlim is None or \
                    abs(p) <= dlim * (1 + 1e-9) + 1e-9:
                st['limit_current_clipped_or_dead_zone'] += 1
                continue
            i_lim = si.q_si('Current', rule['limit'])
            st['limit_current_instants'] += 1
            if not close(cur[k], i_lim, scale=mot['imax'], rel=1e-8):
                viol('StartLimitCurrent/current-not-at-limit', instant=k,
                     current=cur[k], limit=i_lim, duty=p)
    return out, st


def pattern(scn, H, st):
    return (tuple(sorted(r['kind'] for r in scn.get('rules', []))),
            tuple(sorted(k for k in st if k.startswith('active_'))))
