"""C14 - duty-cycle arbitration: one rule wins, default 1, within [-1, 1]."""
from .. import refmodel as rm
from .common import View, Violation

PROP = 'C14'


def nontrivial(st):
    return st.get('controlled_instants', 0) > 0


def check(scn, H, view=None):
    v = view or View(scn, H)
    out = []
    st = v.stats
    if not v.ok:
        return out, st
    done = set()

    def viol(sig, **kw):
        if sig in done:
            return
        done.add(sig)
        out.append(Violation(PROP, sig, kw))
    nrules = len(scn.get('rules', []))
    calls = {}
    for c in H['rule_calls']:
        calls.setdefault((c['epoch'], c['k']), []).append(c)
    max_seq_by_epoch = {}
    for ep in v.epochs:
        if ep['dump'] is None:
            continue
        pwm = v.series(ep, 0, 'pwm') or []
        n_pwm = len(pwm)
        for x in pwm:
            if x is None or x > 1 or x < -1:
                viol('recorded-duty-out-of-range', value=x)
        for seg in ep['segments']:
            last_k = seg['i1'] - 1
            if not seg['control']:
                for k in range(seg['i0'], min(seg['i1'], n_pwm)):
                    st['uncontrolled_instants'] += 1
                    if pwm[k] != seg['pwm_in']:
                        viol('uncontrolled-duty-changed', instant=k,
                             recorded=pwm[k], before_run=seg['pwm_in'])
                        break
                continue
            conflict_seen = False
            n_out = len(out)
            for k in range(seg['i0'], seg['i1']):
                cs = calls.get((ep['index'], k), [])
                raised = [c for c in cs if 'exc' in c]
                if raised:
                    st['rule_raised'] += 1
                    break
                active = seg.get('rules_active', list(range(nrules)))
                if sorted(c['rule'] for c in cs) != active:
                    if k == last_k and seg['exc'] is not None and not cs:
                        break      # the run died before control at this instant
                    viol('rule-call-count', instant=k, calls=len(cs),
                         rules=len(active))
                    break
                props = [c['p'] for c in sorted(cs, key=lambda c: c['rule'])]
                verdict, val = rm.arbitration(props)
                st['controlled_instants'] += 1
                napp = sum(p is not None for p in props)
                st[f'applicable_{min(napp, 2)}'] += 1
                if verdict == 'error':
                    conflict_seen = True
                    st['conflicts'] += 1
                    exc = seg['exc']
                    if exc is None or exc[0] != 'ValueError' or k != last_k:
                        viol('conflict-not-raised', instant=k, proposals=props,
                             run_exception=exc, last_instant=last_k,
                             recorded_duty=pwm[k] if k < n_pwm else None)
                    else:
                        # nothing computed after it
                        later = [c for c in H['rule_calls']
                                 if c['epoch'] == ep['index'] and c['k'] > k]
                        if later or n_pwm > k:
                            viol('continued-after-conflict', instant=k,
                                 recorded_samples=n_pwm)
                    break
                if k >= n_pwm:
                    break
                for p in props:
                    if p is not None and abs(p) > 1:
                        st['F_BOUNDARY_out_of_range_proposals'] += 1
                    if p is not None and abs(p) == 1:
                        st['F_BOUNDARY_on_saturation'] += 1
                if napp == 1 and abs([p for p in props if p is not None][0]) > 1:
                    st['clipped'] += 1
                if napp == 0:
                    st['defaulted'] += 1
                if pwm[k] != val:
                    kind = 'default' if napp == 0 else 'single-rule'
                    viol(f'wrong-duty/{kind}', instant=k, proposals=props,
                         expected=val, recorded=pwm[k])
                    break
            if seg['exc'] is not None and not conflict_seen and \
                    len(out) == n_out and \
                    'simultaneously applicable' in seg['exc'][1]:
                viol('conflict-raised-without-conflict', exception=seg['exc'])
            elif seg['exc'] is not None and not conflict_seen and \
                    len(out) == n_out and seg['exc'][0] in (
                        'TypeError', 'AttributeError', 'KeyError',
                        'IndexError', 'NameError', 'UnboundLocalError'):
                # a legal proposal must be applied, not die inside the
                # library: the last instant's proposals were arbitrated
                # without conflict above
                cs = calls.get((ep['index'], last_k), [])
                viol(f"applying-duty-raises/{seg['exc'][0]}",
                     message=seg['exc'][1], instant=last_k,
                     proposals=[c.get('p') for c in cs],
                     proposal_types=[c.get('ptype') for c in cs])
    return out, st


def pattern(scn, H, st):
    return (tuple(r['kind'] for r in scn.get('rules', [])),
            st.get('conflicts', 0) > 0, st.get('clipped', 0) > 0,
            st.get('defaulted', 0) > 0)
