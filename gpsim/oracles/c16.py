"""C16 - a stop condition ends the run at the first instant it holds."""
import operator

from .. import si
from .common import View, Violation, INTERNAL_ERRORS

PROP = 'C16'
VAR = {'encoder': ('angular position', 'AngularPosition'),
       'tachometer': ('angular speed', 'AngularSpeed'),
       'amperometer': ('electric current', 'Current')}
OPS = {'gt': operator.gt, 'ge': operator.ge, 'eq': operator.eq,
       'lt': operator.lt, 'le': operator.le}


def nontrivial(st):
    return st.get('stop_segments', 0) > 0


def cond(ss, s_si, raw, thr_si, kind):
    """True / False / None (undecided) for one instant."""
    op = OPS[ss['op']]
    if raw is not None and raw[1] == ss['thr'][1]:
        return op(raw[0], ss['thr'][0])       # same unit: exact comparison
    # different units: gearpy converts the threshold to the unit of the
    # sensed value and compares with an absolute band of 1e-12 in that unit
    # ("operands denoting the same magnitude up to rounding compare equal")
    if raw is not None and raw[1] in si.UNITS[kind]:
        f = si.UNITS[kind][raw[1]]
        diff = raw[0] - thr_si / f               # in the sensed value's unit
        noise = 4e-16 * max(abs(raw[0]), abs(thr_si / f))
        if abs(diff) + noise <= 1e-13:
            # well inside the band, conversion rounding included: equal
            return ss['op'] in ('ge', 'le', 'eq')
        if abs(diff) - noise >= 1e-11:
            if ss['op'] == 'eq':
                return False
            return op(diff, 0.0)
        return None
    fac = max(si.UNITS[kind].values())
    band = 1e-9 * max(abs(s_si), abs(thr_si)) + 1e-11 * fac
    if abs(s_si - thr_si) <= band:
        return None
    if ss['op'] == 'eq':
        return False
    return op(s_si, thr_si)


def check(scn, H, view=None):
    v = view or View(scn, H)
    out = []
    st = v.stats
    if not v.ok:
        return out, st
    done = set()

    def viol(sig, **kw):
        if sig in done:
            return
        done.add(sig)
        out.append(Violation(PROP, sig, kw))
    for ep in v.epochs:
        if ep['dump'] is None:
            continue
        d = ep['dump']
        for seg in ep['segments']:
            if seg['stop'] is not None and seg['exc'] is not None and \
                    seg['exc'][0] in INTERNAL_ERRORS:
                # a run with a (legal) stop condition must end at an
                # instant, not die inside the library
                viol(f"run-with-stop-raises/{seg['exc'][0]}",
                     message=seg['exc'][1], epoch=ep['index'],
                     instants_recorded=seg['i1'] - seg['i0'])
            if seg['stop'] is None or seg['exc'] is not None:
                continue
            ss = scn['stops'][seg['stop']]
            var, kind = VAR[ss['sensor']]
            p = v.chain.index(ss['target'])
            series = d['elems'][p]['tv'].get(var)
            rawl = (d.get('stop_raw') or [None])[seg['stop']]
            if series is None:
                continue
            thr_si = si.q_si(kind, ss['thr'])
            first_checked = max(seg['i0'], 1) if seg['fresh'] else seg['i0']
            last = seg['i1'] - 1
            full = seg['n_req'] + (1 if seg['fresh'] else 0)
            early = (seg['i1'] - seg['i0']) < full
            st['stop_segments'] += 1
            st['op_' + ss['op']] += 1
            st['sensor_' + ss['sensor']] += 1
            if not seg['fresh']:
                st['continued_with_stop'] += 1
            # nothing recorded after the stop: every series has the length
            # of the time axis
            sd = seg['dump']
            for e in sd['elems']:
                for var2, n in e['len'].items():
                    # a series that is too SHORT is C17's business
                    if n > sd['n']:
                        viol('recorded-after-stop/length-mismatch',
                             variable=var2, length=n, instants=sd['n'])
            undecided = False
            if early and last < first_checked:
                viol(f"spurious-stop/initial-instant/{ss['sensor']}",
                     recorded=seg['i1'] - seg['i0'], requested_instants=full,
                     note='the run ended before any instant after the '
                          'initial one was computed')
            for k in range(first_checked, last + 1):
                raw = rawl[k] if rawl and k < len(rawl) else None
                c = cond(ss, series[k], raw, thr_si, kind)
                if c is None:
                    st['near_threshold_skips'] += 1
                    undecided = True
                    continue
                if k < last and c:
                    viol(f"late-stop/{ss['sensor']}/{ss['op']}", instant=k,
                         ended_at=last, sensed=series[k], threshold=thr_si,
                         requested_instants=full, fresh=seg['fresh'])
                    break
                if k == last and early and not c:
                    viol(f"spurious-stop/{ss['sensor']}/{ss['op']}",
                         instant=k, sensed=series[k], threshold=thr_si,
                         requested_instants=full, recorded=seg['i1'] - seg['i0'],
                         fresh=seg['fresh'])
                if k == last and early and c:
                    st['F_STOP_checked'] += 1
                    if k == first_checked:
                        st['stopped_at_first_checked'] += 1
            if not early:
                st['never_fired'] += 1
    return out, st


def pattern(scn, H, st):
    ss = (scn.get('stops') or [{}])[0]
    return (ss.get('sensor'), ss.get('op'), ss.get('place'))
