"""C20 - a powertrain is exactly the drive chain reachable from its motor."""
from collections import Counter

from .. import refmodel as rm
from .common import Violation

PROP = 'C20'


def nontrivial(st):
    return st.get('assemblies', 0) > 0


def check(scn, H, view=None):
    st = Counter()
    out = []
    if H.get('timeout'):
        st['timeouts'] += 1      # a 'drives' cycle: outside the quantifier
        return out, st
    if any(b['ev'] == 'construct' and b['exc'] for b in H['build']):
        return out, st
    esi = [rm.elem_si(e) for e in scn['elements']]
    asm = [b for b in H['build'] if b['ev'] == 'assemble']
    rel = H.get('relations')
    if asm and not rel and asm[0]['exc'] is None:
        # a simulated scenario (no relation dumps): only the clause "the
        # element tuple and the flag cannot be changed afterwards", probed
        # after re-declarations, runs and resets
        a0 = asm[0]
        for rec in H['ops']:
            if rec['op'] == 'redeclare' and rec['exc'] is None:
                st['redeclared_after_assembly'] += 1
            if rec['op'] == 'reset' and rec['exc'] is None:
                st['resets_after_redeclaration'] += 1
            if rec['op'] != 'probe_immutable':
                continue
            p = rec['probe']
            st['immutability_probes'] += 1
            st['assemblies'] += 1
            for attr in ('elements', 'self_locking', 'time'):
                if p['assign_' + attr] != 'AttributeError':
                    out.append(Violation(PROP, f'{attr}-assignable', {
                        'outcome': p['assign_' + attr]}))
            if p['chain'] != a0['chain'] or p['elements_type'] != 'tuple':
                out.append(Violation(PROP, 'elements-changed-after-assembly', {
                    'before': a0['chain'], 'after': p['chain']}))
            if p['self_locking'] is not a0['self_locking']:
                out.append(Violation(PROP, 'self-locking-changed-after-assembly', {
                    'before': a0['self_locking'], 'after': p['self_locking'],
                    'ops_before': [o['op'] for o in scn['schedule'][:rec['i']]]}))
        return out[:1], st
    if not asm or not rel:
        return out, st
    asm = asm[0]
    motor = scn.get('motor', 0)
    # the chain is, by the property's own words, what the public 'drives'
    # links say at assembly time (whatever call history produced them)
    chain = [motor]
    seen = {motor}
    while True:
        nxt = rel[chain[-1]].get('drives') if rel[chain[-1]] else None
        if nxt is None:
            break
        if nxt in seen or not isinstance(nxt, int):
            chain = None
            break
        chain.append(nxt)
        seen.add(nxt)
    if chain is None:
        st['cycles_skipped'] += 1
        return out, st
    model_drives = rm.DeclModel(esi)
    for ev in H['build']:
        if ev['ev'] == 'decl' and ev['exc'] is None:
            try:
                d_ = scn['decls'][ev['k']]
                model_drives.apply(d_)
                if d_.get('f_at') is not None and d_['op'] == 'worm':
                    wi_ = d_['m'] if esi[d_['m']]['kind'] == 'WormGear' \
                        else d_['s']
                    model_drives.self_locking[wi_] = \
                        int(d_['f_at'].get('ulps', 0)) > 0
            except Exception:      # noqa
                pass
    model = model_drives
    st['assemblies'] += 1
    names = [scn['elements'][i]['name'] for i in chain]
    dup = len(set(names)) != len(names)
    sl_flags = [rel[i].get('self_locking') if rel and rel[i] else None
                for i in range(len(esi))]
    exp_sl = any(esi[i]['kind'] == 'WormGear' and sl_flags[i] is True
                 for i in chain)
    st['chain_len_%d' % min(len(chain), 12)] += 1

    def viol(sig, **kw):
        out.append(Violation(PROP, sig, kw))
    if len(chain) == 1:
        st['motor_drives_nothing'] += 1
        if asm['exc'] is None or asm['exc'][0] != 'ValueError':
            viol('unconnected-motor-accepted', result=asm)
        return out, st
    if dup:
        st['duplicate_names_in_chain'] += 1
        if asm['exc'] is None or asm['exc'][0] != 'NameError':
            viol('duplicate-names-accepted', names=names, result=asm['exc'])
        return out, st
    if len(set(e['name'] for e in scn['elements'])) != len(scn['elements']):
        st['duplicate_names_outside_chain'] += 1
    if asm['exc'] is not None:
        viol(f"valid-chain-rejected/{asm['exc'][0]}", chain=chain,
             names=names, exception=asm['exc'])
        return out, st
    if asm['chain'] != chain:
        viol('wrong-elements', expected=chain, got=asm['chain'],
             kinds=[esi[i]['kind'] for i in chain])
    if asm['elements_type'] != 'tuple':
        viol('elements-not-a-tuple', type=asm['elements_type'])
    if asm['self_locking'] is not exp_sl:
        viol('self-locking-flag', got=asm['self_locking'], expected=exp_sl,
             worm_flags={i: sl_flags[i] for i in chain
                         if esi[i]['kind'] == 'WormGear'})
    # ... and "flagged" means: by the declaration in force, i.e. what the
    # last accepted worm declaration of each worm gear of the chain computes
    # from f > cos(alpha)*tan(beta) (a flag that is stale on the element is
    # C10's violation, a powertrain that follows it is also this one)
    exp_decl = model.chain_self_locking(chain)
    if not getattr(model, 'fragile', False) and \
            asm['self_locking'] is not exp_decl:
        viol('self-locking-flag/declared', got=asm['self_locking'],
             expected=exp_decl,
             declared={i: model.self_locking[i] for i in chain
                       if esi[i]['kind'] == 'WormGear'},
             element_flags={i: sl_flags[i] for i in chain
                            if esi[i]['kind'] == 'WormGear'})
    st['self_locking_' + str(exp_sl)] += 1
    if any(ev['ev'] == 'decl' and ev['exc'] is None and
           (model.driven_by[scn['decls'][ev['k']]['s']] !=
            scn['decls'][ev['k']]['m']) for ev in H['build']):
        st['rerouted_before_assembly'] += 1
    # immutability
    for rec in H['ops']:
        if rec['op'] == 'redeclare' and rec['exc'] is None:
            st['redeclared_after_assembly'] += 1
        if rec['op'] != 'probe_immutable':
            continue
        p = rec['probe']
        st['immutability_probes'] += 1
        for attr in ('elements', 'self_locking', 'time'):
            if p['assign_' + attr] != 'AttributeError':
                viol(f'{attr}-assignable', outcome=p['assign_' + attr])
        if p['chain'] != asm['chain'] or p['elements_type'] != 'tuple':
            viol('elements-changed-after-assembly', before=asm['chain'],
                 after=p['chain'])
        if p['self_locking'] is not asm['self_locking']:
            viol('self-locking-changed-after-assembly',
                 before=asm['self_locking'], after=p['self_locking'])
    return out, st


def pattern(scn, H, st):
    return tuple(sorted(k for k in st if k.startswith('chain_len_') or
                        k.startswith('duplicate') or k.startswith('motor_')))
