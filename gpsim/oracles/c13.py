"""C13 - a self-locking powertrain is never driven by its load."""
from .common import View, Violation, POS, SPD, ACC, TQ, DTQ, LTQ, REL

PROP = 'C13'


def nontrivial(st):
    return st.get('held_instants', 0) > 0 or st.get('non_self_locking_instants', 0) > 0


def check(scn, H, view=None):
    v = view or View(scn, H)
    out = []
    st = v.stats
    if not v.ok:
        return out, st
    N = v.N
    done = set()

    def viol(sig, **kw):
        if sig in done:
            return
        done.add(sig)
        out.append(Violation(PROP, sig, kw))
    for ep in v.epochs:
        if ep['dump'] is None:
            continue
        if not v.finite_epoch(ep):
            st['discarded_nonfinite'] += 1
            continue
        lock = v.lock_trace(ep)
        w0 = v.series(ep, 0, SPD)
        TN = v.series(ep, N - 1, TQ)
        pos = [v.series(ep, p, POS) for p in range(N)]
        spd = [v.series(ep, p, SPD) for p in range(N)]
        acc = [v.series(ep, p, ACC) for p in range(N)]
        stall = abs(v.mot['Tmax'])
        prev = None
        for s in lock:
            k = s['k']
            st['instants'] += 1
            D = s['D_in']
            if not v.self_locking:
                st['non_self_locking_instants'] += 1
                if s['impl'] and ((s['w_adv'] not in (None, 0)) or TN[k] != 0):
                    viol('non-self-locking-clamped', epoch=ep['index'],
                         instant=k, advanced_speed=s['w_adv'], torque=TN[k],
                         duty_in_force=D)
                continue
            if D == 0:
                st['zero_duty_instants'] += 1
            if prev is not None and prev['D_in'] * D < 0:
                st['duty_sign_changes'] += 1
            L0 = v.series(ep, 0, LTQ)[k]
            if abs(L0) > stall:
                st['overload_instants'] += 1
            # (a) sign rule on the motor speed
            band = REL * max(abs(x) for x in (w0[k], 1e-300)) + 7e-12
            if D == 0 and w0[k] != 0:
                viol('sign-rule/zero-duty-moving', epoch=ep['index'],
                     instant=k, motor_speed=w0[k])
            elif D > 0 and w0[k] < -band:
                viol('sign-rule/positive-duty-negative-speed',
                     epoch=ep['index'], instant=k, motor_speed=w0[k], duty=D)
            elif D < 0 and w0[k] > band:
                viol('sign-rule/negative-duty-positive-speed',
                     epoch=ep['index'], instant=k, motor_speed=w0[k], duty=D)
            if s['und'] or s['held'] is None:
                st['near_threshold_skips'] += 1
                prev = s
                continue
            if s['held']:
                st['held_instants'] += 1
                if s['engage']:
                    st['engage'] += 1
                # (b) held => everything at rest
                if not s['impl']:
                    viol('held-but-moving', epoch=ep['index'], instant=k,
                         duty_in_force=D, advanced_speed=s['w_adv'],
                         engage=s['engage'], release=s['release'],
                         speeds=[spd[p][k] for p in range(N)][:4],
                         accelerations=[acc[p][k] for p in range(N)][:4])
                elif prev is not None and prev['held'] is True and prev['impl'] and \
                        not s['first']:
                    for p in range(N):
                        # (a user's in-place unit conversion of a live
                        # position may change its last bit)
                        if pos[p][k] != pos[p][k - 1] and \
                                abs(pos[p][k] - pos[p][k - 1]) > 1e-12 * max(
                                    abs(pos[p][k]), abs(pos[p][k - 1])):
                            viol('held-position-changed', epoch=ep['index'],
                                 instant=k, element=p, before=pos[p][k - 1],
                                 after=pos[p][k])
                            break
            else:
                if prev is not None and prev['held'] is True and not s['first']:
                    st['release'] += 1
                # (c) free => not clamped
                if s['impl'] and ((s['w_adv'] not in (None, 0)) or TN[k] != 0):
                    viol('clamped-when-free', epoch=ep['index'], instant=k,
                         duty_in_force=D, advanced_speed=s['w_adv'],
                         release=s['release'], prev_held=s['prev_held'],
                         torque=TN[k])
            prev = s
    return out, st


def pattern(scn, H, st):
    return (st.get('engage', 0) > 0, st.get('release', 0) > 0,
            st.get('zero_duty_instants', 0) > 0,
            st.get('duty_sign_changes', 0) > 0,
            st.get('overload_instants', 0) > 0,
            min(st.get('held_instants', 0), 5))
