"""Shared view of a (scenario, history) pair for the oracles."""
import math
from collections import Counter

from .. import si
from .. import refmodel as rm
from ..gen import run_T_si

REL = 1e-9
POS, SPD, ACC = 'angular position', 'angular speed', 'angular acceleration'
TQ, DTQ, LTQ = 'torque', 'driving torque', 'load torque'


class Violation:
    def __init__(self, prop, sig, detail):
        self.prop = prop
        self.sig = f'{prop}/{sig}'
        self.detail = detail

    def as_dict(self):
        return {'property': self.prop, 'signature': self.sig,
                'detail': self.detail}

    def __repr__(self):
        return f'<{self.sig} {self.detail}>'


def close(a, b, scale=None, rel=REL, tiny=1e-300):
    if a is None or b is None:
        return False
    if not (math.isfinite(a) and math.isfinite(b)):
        return False
    s = max(abs(a), abs(b)) if scale is None else max(scale, abs(a), abs(b))
    return abs(a - b) <= rel * s + tiny


class View:
    """Decoded history: model, chain, epochs, segments."""

    def __init__(self, scn, H):
        self.scn, self.H = scn, H
        self.stats = Counter()
        self.ok = False
        self.timeout = bool(H.get('timeout'))
        if self.timeout or not H.get('assembled'):
            return
        if any(b['exc'] for b in H['build']):
            return
        self.esi = [rm.elem_si(e) for e in scn['elements']]
        self.model = rm.DeclModel(self.esi)
        for d in scn['decls']:
            self.model.apply(d)
        asm = [b for b in H['build'] if b['ev'] == 'assemble'][0]
        self.chain = asm['chain']
        self.model_chain = self.model.chain(scn.get('motor', 0))
        self.N = len(self.chain)
        self.r = [None] + [self.model.ratio[c] for c in self.chain[1:]]
        self.eta = [None] + [self.model.eff[c] for c in self.chain[1:]]
        if any(x is None for x in self.r[1:]) or \
                any(x is None for x in self.eta[1:]):
            return
        self.mot = self.esi[self.chain[0]]
        self.R_tot = 1.0
        for x in self.r[1:]:
            self.R_tot *= x
        self.J_eq = rm.equivalent_inertia(self.model, self.chain)
        self.self_locking = self.model.chain_self_locking(self.chain)
        self.sl_reported = asm.get('self_locking')
        self.tmax_unit_factor = si.factor('Torque',
                                          scn['elements'][self.chain[0]]['Tmax'][1])
        self._segments()
        self.ok = True

    def _segments(self):
        scn, H = self.scn, self.H
        self.epochs = []
        cur = {'index': 0, 'segments': [], 'dump': None, 'reapplied': True}
        self.epochs.append(cur)
        prev_solver = None
        pending_state = None
        cur_eta = list(self.eta)
        self.aborted = H.get('aborted_at') is not None
        for rec in H['ops']:
            op = scn['schedule'][rec['i']]
            if rec['op'] == 'run':
                seg = {
                    'op': rec['i'], 'epoch': cur['index'],
                    'i0': rec['n_before'], 'i1': rec['n_after'],
                    'fresh': rec['n_before'] == 0,
                    'dt': si.q_si('TimeInterval', op['dt']),
                    'dt_q': op['dt'], 'T': run_T_si(op), 'n_req': op['n'],
                    'control': bool(op.get('control')) and
                    bool(scn.get('rules') or scn.get('empty_control')),
                    'stop': op.get('stop'),
                    'new_solver': rec['solver_id'] != prev_solver,
                    'pwm_in': rec['pwm_in'], 'exc': rec['exc'],
                    'rule_calls_from': rec.get('rule_calls_from'),
                    'T_presented': rec.get('T_presented'),
                    'dump': rec['dump'],
                    'eta': list(cur_eta),
                    # position / speed assigned to the last element since
                    # the previous run (SI), None = untouched
                    'state_in': pending_state,
                    # rules of the controller at this run (a rule may have
                    # been added between two runs)
                    'rules_active': [
                        i for i, r_ in enumerate(scn.get('rules') or [])
                        if (r_.get('from_run') or 0) <=
                        rec.get('run_ordinal', 0)],
                }
                pending_state = None
                prev_solver = rec['solver_id']
                cur['segments'].append(seg)
                cur['dump'] = rec['dump']
            elif rec['op'] == 'reset':
                pending_state = None
                if rec['exc'] is None:
                    cur = {'index': cur['index'] + 1, 'segments': [],
                           'dump': None, 'reapplied': bool(op.get('reapply'))}
                    self.epochs.append(cur)
            elif rec['op'] == 'redeclare' and rec['exc'] is None:
                # an efficiency re-declared between two runs (same pair):
                # later segments use the new value
                d = op['decl']
                self.model.apply(d)
                if d['s'] in self.chain:
                    cur_eta[self.chain.index(d['s'])] = self.model.eff[d['s']]
                self.stats['redeclared_between_runs'] += 1
            elif rec['op'] == 'set_pwm':
                pass
            elif rec['op'] == 'set_state' and rec['exc'] is None:
                pending_state = dict(pending_state or {})
                if op.get('position') is not None:
                    pending_state['th'] = si.q_si('AngularPosition',
                                                  op['position'])
                if op.get('speed') is not None:
                    pending_state['w'] = si.q_si('AngularSpeed', op['speed'])
                self.stats['state_assigned_between_runs'] += 1

    # -- series access (chain position p, variable) of an epoch
    def series(self, ep, p, var):
        return ep['dump']['elems'][p]['tv'].get(var)

    def n_valid(self, ep):
        """instants for which every element has all six basic samples."""
        d = ep['dump']
        if d is None:
            return 0
        n = d['n']
        for e in d['elems']:
            for var in (POS, SPD, ACC, TQ, DTQ, LTQ):
                n = min(n, e['len'].get(var, 0))
        return n

    def finite_epoch(self, ep):
        d = ep['dump']
        if d is None:
            return True
        # an explicit scheme that has blown up (speeds thousands of times
        # the no-load speed) is numerically meaningless even while finite
        w0 = self.mot['w0']
        for x in d['elems'][0]['tv'].get(SPD, []):
            if x is not None and abs(x) > 1e4 * w0:
                return False
        for e in d['elems']:
            for var in (POS, SPD, ACC, TQ, DTQ, LTQ):
                for x in e['tv'].get(var, []):
                    if x is None or not math.isfinite(x) or abs(x) > 1e150:
                        return False
        return True

    def eta_at(self, ep, k):
        seg = self.seg_of(ep, k)
        return seg['eta'] if seg is not None else self.eta

    def seg_of(self, ep, k):
        for s in ep['segments']:
            if s['i0'] <= k < s['i1']:
                return s
        return None

    def init_si(self):
        init = self.scn.get('init')
        if not init:
            return None, None
        return (si.q_si('AngularPosition', init['position']),
                si.q_si('AngularSpeed', init['speed']))

    # -- reference lock automaton over one epoch (DESIGN 4.2)
    def lock_trace(self, ep):
        """per instant dict(held, impl, D_in, w_adv, engage, release, und)."""
        n = self.n_valid(ep)
        N = self.N
        wN = self.series(ep, N - 1, SPD)
        aN = self.series(ep, N - 1, ACC)
        tqN = self.series(ep, N - 1, TQ)
        tq0 = self.series(ep, 0, TQ)
        d0 = self.series(ep, 0, DTQ)
        l0 = self.series(ep, 0, LTQ)
        pwm = self.series(ep, 0, 'pwm') or []
        spd = [self.series(ep, p, SPD) for p in range(N)]
        acc = [self.series(ep, p, ACC) for p in range(N)]
        out = []
        held = False
        th_init, w_init = self.init_si()
        for seg in ep['segments']:
            if seg['fresh'] or seg['new_solver']:
                held = False
            for k in range(seg['i0'], min(seg['i1'], n)):
                impl = all(spd[p][k] == 0 for p in range(N)) and \
                    all(acc[p][k] == 0 for p in range(N))
                first = k == seg['i0']
                D_in = seg['pwm_in'] if first else pwm[k - 1]
                und = False
                if k == 0:
                    if wN[0] != 0:
                        w_adv = wN[0]
                    elif ep['index'] == 0 or ep['reapplied']:
                        w_adv = w_init if w_init is not None else 0.0
                    else:
                        # reset without re-applied initial conditions: the
                        # live speed is the first sample of the previous run
                        prev = [e for e in self.epochs
                                if e['index'] < ep['index'] and
                                e['dump'] is not None and self.n_valid(e) > 0]
                        if prev:
                            w_adv = self.series(prev[-1], N - 1, SPD)[0]
                        else:
                            w_adv = None
                            und = True
                    band_w = 0.0
                    release = False
                    rel_und = False
                else:
                    w_prev = wN[k - 1]
                    if first and seg.get('state_in') and \
                            'w' in seg['state_in']:
                        w_prev = seg['state_in']['w']
                    w_adv = w_prev + aN[k - 1] * seg['dt']
                    band_w = (REL * max(abs(w_prev),
                                        abs(aN[k - 1] * seg['dt']))
                              + 7e-12 / self.R_tot)
                    T_prev = tq0[k - 1]
                    band_T = REL * max(abs(d0[k - 1]), abs(l0[k - 1])) + \
                        1e-12 * self.tmax_unit_factor
                    release = rm.lock_release(T_prev, D_in)
                    rel_und = 0 < abs(T_prev) <= band_T and D_in != 0
                if not self.self_locking:
                    engage = False
                    eng_und = False
                elif w_adv is None:
                    engage = None
                    eng_und = True
                else:
                    engage = rm.lock_engage(D_in, w_adv)
                    eng_und = D_in != 0 and 0 < abs(w_adv) <= band_w
                if eng_und:
                    und = True
                elif not engage and held and rel_und:
                    und = True
                # is "everything at rest" distinguishable from "clamped"?
                ambiguous = impl and tqN[k] == 0 and (w_adv in (0, None))
                if und:
                    self.stats['near_threshold_lock'] += 1
                    # re-synchronise on what happened, if that can be told
                    ref = None if ambiguous else impl
                elif engage:
                    ref = True
                elif held is None:
                    # the reference lost track earlier (undecided instant
                    # with an indistinguishable outcome)
                    if release:
                        ref = False
                    else:
                        ref = None if ambiguous else impl
                        und = True
                else:
                    ref = held and not release
                out.append({'k': k, 'held': ref, 'impl': impl, 'D_in': D_in,
                            'w_adv': w_adv, 'engage': engage,
                            'release': release, 'und': und or ref is None,
                            'prev_held': held, 'dt': seg['dt'],
                            'first': first,
                            'state_in': seg.get('state_in') if first and k
                            else None})
                # the reference continues from its own state unless undecided
                held = ref
        return out


# exception kinds that are never a documented rejection: a legal operation
# that ends with one of them died inside the library
INTERNAL_ERRORS = ('TypeError', 'AttributeError', 'KeyError', 'IndexError',
                   'NameError', 'UnboundLocalError', 'ZeroDivisionError')


def kinds_of(view):
    return [view.esi[c]['kind'] for c in view.chain]


def pair_tag(view, p):
    """'Kind-via-Kind' of chain positions p, p+1 (stable signature part)."""
    a = view.esi[view.chain[p]]['kind']
    b = view.esi[view.chain[p + 1]]['kind']
    via = view.model.via[view.chain[p + 1]]
    return f'{a}-{via}-{b}'


def decision_margins(view, ep, k):
    """(name, relative margin) of every discrete decision taken at instant k
    of an epoch: lock engage/release, step loads, timers, rule windows,
    dead-zone edge, stop thresholds.  Small margin = within rounding.
    A margin inside gearpy's own comparison band (1e-12 in the unit of the
    left operand, DESIGN 4.4) is reported as 0."""
    out = []
    scn, H = view.scn, view.H
    n = view.n_valid(ep)
    if k >= n:
        return out
    N = view.N
    d = ep['dump']
    t = d['time']
    tscale = max(abs(t[-1]), 1e-300) if t else 1.0
    TWO_PI = 6.283185307179586
    # the band is absolute in the unit of the left operand; the two
    # executions of a differential may use different units, so take the
    # largest time unit (hour)
    tfac = 3600.0

    def m(name, diff, scale, band):
        diff = abs(diff)
        out.append((name, 0.0 if diff <= band * 1.01 else diff / max(scale, 1e-300)))
    wN = view.series(ep, N - 1, SPD)
    aN = view.series(ep, N - 1, ACC)
    seg = view.seg_of(ep, k)
    dt = seg['dt'] if seg else 0.0
    if view.self_locking and k >= 1:
        w_adv = wN[k - 1] + aN[k - 1] * dt
        sc = max(abs(wN[k - 1]), abs(aN[k - 1] * dt), 1e-300)
        if w_adv != 0:
            m('lock-engage', w_adv, sc, 1e-12 * TWO_PI / view.R_tot)
        tq0 = view.series(ep, 0, TQ)[k - 1]
        sc = max(abs(view.series(ep, 0, DTQ)[k - 1]),
                 abs(view.series(ep, 0, LTQ)[k - 1]), 1e-300)
        if tq0 != 0:
            m('lock-release', tq0, sc, 1e-12 * 1000.0)
    for term in (scn.get('load') or {}).get('terms', []):
        if term['t'] == 'step':
            m('load-step', t[k] - term['t0'], tscale, 0.0)
        elif term['t'] == 'coulomb' and wN[k] != 0:
            # F*sign(speed): the sign of a speed that is zero up to rounding
            # (for instance a rest state assigned by the user, advanced by a
            # residual acceleration of 1e-14)
            m('load-coulomb-sign', wN[k],
              max(max(abs(x) for x in wN[:n]), abs(aN[k - 1] * dt)
                  if k else 0.0), 0.0)
    pwm = view.series(ep, 0, 'pwm')
    dlim = rm.motor_dlim(view.mot)
    if dlim and pwm and k < len(pwm) and pwm[k] is not None:
        m('dead-zone', abs(pwm[k]) - dlim, dlim, 0.0)
    if pwm and k < len(pwm) and pwm[k]:
        # the sign of a duty cycle that is zero up to rounding selects the
        # branch of the motor law and the lock decision
        m('duty-sign', pwm[k], 1.0, 0.0)
    if seg and seg['control']:
        for i, rule in enumerate(scn.get('rules', [])):
            kd = rule['kind']
            if kd == 'ConstantPWM':
                s_ = si.q_si('Time', rule['start'])
                e_ = s_ + si.q_si('TimeInterval', rule['duration'])
                m('timer-start', t[k] - s_, tscale, 1e-12 * tfac)
                m('timer-end', t[k] - e_, tscale, 1e-12 * tfac)
            elif kd in ('StartProportional', 'StartLimitCurrent'):
                p = view.chain.index(rule['enc'])
                th = view.series(ep, p, POS)[k]
                tg = si.q_si('AngularPosition', rule['target'])
                m('rule-target', th - tg, max(abs(th), abs(tg)),
                  1e-12 * TWO_PI)
            elif kd == 'ReachAngularPosition':
                p = view.chain.index(rule['enc'])
                th = view.series(ep, p, POS)[k]
                tg = si.q_si('AngularPosition', rule['target'])
                tb = si.q_si('Angle', rule['brake'])
                L0 = view.series(ep, 0, LTQ)[k]
                eta_t = 1.0
                for x in view.eta_at(ep, k)[1:]:
                    eta_t *= x
                err = L0 / view.mot['Tmax'] * tb / eta_t
                ths = tg - tb + err
                m('rule-brake-start', th - ths, max(abs(th), abs(tg), tb),
                  1e-12 * TWO_PI)
    if seg and seg['stop'] is not None:
        ss = scn['stops'][seg['stop']]
        var = {'encoder': POS, 'tachometer': SPD,
               'amperometer': 'electric current'}[ss['sensor']]
        kind = {'encoder': 'AngularPosition', 'tachometer': 'AngularSpeed',
                'amperometer': 'Current'}[ss['sensor']]
        p = view.chain.index(ss['target'])
        s_ = view.series(ep, p, var)
        if s_ and k < len(s_) and s_[k] is not None:
            thr = si.q_si(kind, ss['thr'])
            m('stop-threshold', s_[k] - thr, max(abs(s_[k]), abs(thr)),
              1e-12 * max(si.UNITS[kind].values()))
    return out
