"""C17 - every advertised time variable has exactly one sample per instant."""
from .common import View, Violation, close, INTERNAL_ERRORS
from .. import si

PROP = 'C17'


def nontrivial(st):
    return st.get('dumps_checked', 0) > 0


def check(scn, H, view=None):
    v = view or View(scn, H)
    out = []
    st = v.stats
    if not v.ok:
        return out, st
    done = set()

    def viol(sig, **kw):
        if sig in done:
            return
        done.add(sig)
        out.append(Violation(PROP, sig, kw))
    kinds = [v.esi[c]['kind'] for c in v.chain]
    ok_so_far = True
    prev_dump = None
    for rec in H['ops']:
        op = scn['schedule'][rec['i']]
        if rec['op'] in ('run', 'reset'):
            if rec['exc'] is not None and rec.get('expected_failure') \
                    and rec.get('dump') is not None:
                # a run ended by the user's own mistake (a stop condition
                # that cannot be compared): the history it leaves behind is
                # judged like any other, and so is what follows
                st['F_BADPARAM_run_ended_by_bad_stop'] += 1
            elif rec['exc'] is not None:
                ok_so_far = False        # a run that raised is not judged
                if rec['op'] == 'reset':
                    st['reset_raised'] += 1
                    if rec['exc'][0] in INTERNAL_ERRORS and \
                            rec.get('n_before', 0) > 0:
                        # reset() of a simulated powertrain that dies inside
                        # the library leaves it half reset
                        viol(f"reset-fails/{rec['exc'][0]}",
                             message=rec['exc'][1], op_index=rec['i'])
                break
            d = rec['dump']
            n = d['n']
            # recorded history is append-only within an epoch: a later
            # operation must not rewrite earlier samples
            if prev_dump is not None and rec['op'] == 'run' and \
                    rec['n_before'] > 0 and prev_dump['n'] == rec['n_before']:
                st['prefix_checks'] += 1
                m = prev_dump['n']
                def same(xs, ys):
                    # (the recorded sample objects are the live attribute
                    # objects; a user's in-place unit conversion changes
                    # their last bits, not their magnitude)
                    if len(ys) < len(xs):
                        return False
                    for x, y in zip(xs, ys):
                        if x is None or y is None:
                            if x is not y:
                                return False
                        elif x != y and not (x != x and y != y) and \
                                abs(x - y) > 1e-12 * max(abs(x), abs(y)):
                            return False
                    return True
                if not same(prev_dump['time'][:m], d['time']):
                    viol('history-rewritten/time', op_index=rec['i'])
                for p, (e0, e1) in enumerate(zip(prev_dump['elems'], d['elems'])):
                    for var, xs in e0['tv'].items():
                        if not same(xs, e1['tv'].get(var, [])):
                            viol(f'history-rewritten/{kinds[p]}/{var}',
                                 element=p, op_index=rec['i'])
            prev_dump = d
            st['dumps_checked'] += 1
            st['after_' + rec['op']] += 1
            if rec['op'] == 'run' and rec['n_before'] > 0:
                st['after_continuation'] += 1
            if d['time_bad']:
                viol('time/type', indices=d['time_bad'][:5])
            for p, e in enumerate(d['elems']):
                for var in e['vars']:
                    st['series_checked'] += 1
                    if e['len'][var] != n:
                        viol(f'length/{kinds[p]}/{var}', element=p,
                             samples=e['len'][var], instants=n,
                             after=rec['op'], op_index=rec['i'])
                        continue
                    if e['bad'][var]:
                        viol(f'type/{kinds[p]}/{var}', element=p,
                             indices=e['bad'][var][:5], after=rec['op'])
                        continue
                    if n:
                        live = e['live'][var]
                        last = e['tv'][var][-1]
                        if last == live or (
                                isinstance(live, float) and live != live and
                                last != last):
                            continue        # identical (also inf, NaN)
                        if isinstance(live, str) or live is None or \
                                not close(last, live):
                            viol(f'last-vs-live/{kinds[p]}/{var}', element=p,
                                 last=last, live=live, after=rec['op'])
                # subset coverage bookkeeping
            if n:
                for c in v.chain:
                    e = scn['elements'][c]
                    key = 'subset_' + e['kind'] + ':' + ''.join(
                        x for x in ('m', 'b', 'E', 'd', 'i0')
                        if e.get(x) is not None)
                    st[key] += 1
        elif rec['op'] in ('export', 'snapshot') and ok_so_far:
            if rec['n_before'] == 0:
                continue
            st[rec['op'] + 's'] += 1
            if rec['exc'] is not None and not op.get('fault'):
                viol(f"{rec['op']}-fails/{rec['exc'][0]}", message=rec['exc'][1],
                     op_index=rec['i'])
    return out, st


def pattern(scn, H, st):
    return tuple(sorted(k for k in st if k.startswith('subset_')))
