"""C19 - sign-constrained quantities and parameters can never be invalid."""
from collections import Counter

from .. import quant
from .common import Violation

PROP = 'C19'
NO_POWERTRAIN = True
OK_EXC = ('ValueError', 'TypeError', 'ZeroDivisionError')


def nontrivial(st):
    return st.get('steps', 0) > 0


def normalise(scn):
    """Operand indices are taken modulo the live heap at execution time, so
    that programs stay meaningful when earlier steps (legitimately) fail."""
    return scn


def run(scn, H0, execu):
    execu.gp()
    st = Counter()
    out = []
    prog = scn.get('program', [])
    # execute with indices reduced modulo the current heap size
    fixed = []
    H = None
    scn2 = dict(scn)
    # first pass decides the indices step by step
    import copy
    steps_done = []
    heap_n = 0
    program = []
    for stp in prog:
        s2 = copy.deepcopy(stp)
        if stp['op'] != 'new':
            if heap_n == 0:
                continue
            for key in ('a', 'b'):
                if key in s2:
                    s2[key] = s2[key] % heap_n
        program.append(s2)
        H = quant.execute_program({'program': program})
        heap_n = H['steps'][-1]['heap']
    if H is None:
        H = quant.execute_program({'program': []})
    done = set()

    def viol(sig, **kw):
        if sig in done:
            return
        done.add(sig)
        out.append(Violation(PROP, sig, kw))
    for rec, stp in zip(H['steps'], program):
        if rec['nonfinite']:
            st['nonfinite_programs'] += 1
            break
        st['steps'] += 1
        st['op_' + rec['op']] += 1
        if rec['exc'] is not None:
            st['raised_' + rec['exc'][0]] += 1
            if rec['exc'][0] not in OK_EXC:
                viol(f"unexpected-exception/{rec['op']}/{rec['exc'][0]}",
                     step=stp, message=rec['exc'][1],
                     operands=rec.get('operands'))
        elif rec['result'] == 'None':
            viol(f"operation-returns-None/{rec['op']}", step=stp,
                 operands=rec.get('operands'))
        if stp.get('inplace'):
            st['inplace_conversions'] += 1
        if rec['invalid']:
            j, why = rec['invalid'][0]
            kind = why.split(' ')[0]
            viol(f"invalid-quantity-alive/{kind}/after-{rec['op']}",
                 step_index=rec['i'], step=stp, why=why,
                 program=program[:rec['i'] + 1])
            break
    # constructor half
    for rec in quant.bad_constructions(scn):
        st['F_BADPARAM'] += 1
        st['bad_' + rec['what']] += 1
        if rec['exc'] is None:
            viol(f"constructor-accepts/{rec['what']}", case=rec)
        elif rec['exc'][0] != 'ValueError':
            viol(f"constructor-wrong-exception/{rec['what']}/{rec['exc'][0]}",
                 case=rec)
    H['_measured_scn'] = {'schedule': [], 'elements': [], 'seed': scn.get('seed'),
                          'profile': 'quant'}
    return H, out, st


def check(scn, H, view=None):
    raise NotImplementedError('use run()')


def pattern(scn, H, st):
    return tuple(s['op'] + str(s.get('kind', '')) for s in scn.get('program', []))[:10] + \
        tuple(sorted(k for k in st if k.startswith('raised_')))
