"""C10 - declaring a mating or joint sets a consistent, validated relation
(model based, operation by operation)."""
from .. import refmodel as rm
from .common import Violation, close
from collections import Counter

PROP = 'C10'


def nontrivial(st):
    return st.get('decls_judged', 0) > 0


def check(scn, H, view=None):
    st = Counter()
    out = []
    if H.get('timeout'):
        return out, st
    if any(b['ev'] == 'construct' and b['exc'] for b in H['build']):
        st['construction_failed'] += 1
        return out, st
    esi = [rm.elem_si(e) for e in scn['elements']]
    model = rm.DeclModel(esi)
    done = set()

    def viol(sig, **kw):
        if sig in done:
            return
        done.add(sig)
        out.append(Violation(PROP, sig, kw))
    for ev in H['build']:
        if ev['ev'] != 'decl' or 'before' not in ev:
            continue
        d = scn['decls'][ev['k']]
        at = d.get('f_at')
        if at is not None and ev.get('f_used') is not None:
            d = dict(d, f=ev['f_used'])
        verdict, exc = model.judge(d)
        accepted = ev['exc'] is None
        mk, sk = esi[d['m']]['kind'], esi[d['s']]['kind']
        tag = f"{d['op']}/{mk}-{sk}"
        st['decls_judged'] += 1
        if verdict == 'undecided':
            st['near_threshold_skips'] += 1
        elif verdict == 'accept':
            st['accepted'] += 1
            st['accepted_' + d['op']] += 1
            if model.driven_by[d['s']] is not None and \
                    model.driven_by[d['s']] != d['m'] or \
                    model.drives[d['m']] is not None and \
                    model.drives[d['m']] != d['s']:
                st['rerouting'] += 1
            if not accepted:
                viol(f'valid-declaration-rejected/{tag}', decl=d,
                     exception=ev['exc'], index=ev['k'])
        else:
            st['F_REJECT_' + str(d.get('fault'))] += 1
            st['rejected'] += 1
            if accepted:
                viol(f"invalid-declaration-accepted/{d.get('fault')}/{tag}",
                     decl=d, index=ev['k'])
            else:
                if ev['exc'][0] != exc:
                    viol(f"wrong-exception/{d.get('fault')}/{tag}", decl=d,
                         expected=exc, got=ev['exc'])
                if ev['before'] != ev['after']:
                    viol(f"rejected-call-mutates/{d.get('fault')}/{tag}",
                         decl=d, exception=ev['exc'], before=ev['before'],
                         after=ev['after'])
        if accepted:
            # whatever the model thought, follow what happened, and check
            # the resulting relation where the model has an opinion
            fragile_before = model.fragile
            model.fragile = False
            try:
                model.apply(d)
            except Exception:      # noqa
                continue
            if at is not None and d['op'] == 'worm':
                # the friction sits on the library's own threshold float (or
                # k ulps beside it): "f > threshold" is decided by k alone
                wi_ = d['m'] if esi[d['m']]['kind'] == 'WormGear' else d['s']
                model.self_locking[wi_] = int(at.get('ulps', 0)) > 0
                model.fragile = False
                st['F_BOUNDARY_friction_on_threshold'] += 1
            am, as_ = ev['after']
            if verdict == 'accept':
                if am.get('drives') != d['s'] or as_.get('driven_by') != d['m']:
                    viol(f'links/{tag}', decl=d, master=am, slave=as_)
                if d['op'] != 'joint':
                    if am.get('mating_role') != 'MatingMaster' or \
                            as_.get('mating_role') != 'MatingSlave':
                        viol(f'roles/{tag}', decl=d, master=am, slave=as_)
                ratio = as_.get('master_gear_ratio')
                if not isinstance(ratio, float) or \
                        not close(ratio, model.ratio[d['s']], rel=1e-12) or \
                        not ratio > 0:
                    viol(f'ratio/{tag}', decl=d, got=ratio,
                         expected=model.ratio[d['s']])
                if d['op'] != 'joint':
                    eff = as_.get('master_gear_efficiency')
                    exp = model.eff[d['s']]
                    ok = eff is not None and 0 <= eff <= 1 and \
                        (eff == exp if d['op'] == 'gear'
                         else close(eff, exp, scale=1.0))
                    if not ok:
                        viol(f'efficiency/{tag}', decl=d, got=eff, expected=exp)
                if d['op'] == 'worm':
                    w = am if mk == 'WormGear' else as_
                    wi = d['m'] if mk == 'WormGear' else d['s']
                    if model.fragile:
                        st['near_threshold_skips'] += 1
                    elif w.get('self_locking') is not model.self_locking[wi]:
                        viol(f'self-locking/{tag}', decl=d,
                             got=w.get('self_locking'),
                             expected=model.self_locking[wi],
                             margin=model.worm_self_locking(d)[1])
                    else:
                        st['self_locking_' + str(model.self_locking[wi])] += 1
            model.fragile = fragile_before or model.fragile
    return out, st


def pattern(scn, H, st):
    return tuple(sorted(k for k in st if k.startswith('F_REJECT_'))) + \
        (st.get('rerouting', 0) > 0,)
