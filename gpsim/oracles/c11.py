"""C11 - the time axis is the uniform grid 0, dt, ..., T."""
from decimal import Decimal

from .. import refmodel as rm
from .common import View, Violation

PROP = 'C11'


def nontrivial(st):
    return st.get('segments', 0) > 0


def check(scn, H, view=None):
    v = view or View(scn, H)
    out = []
    if H.get('timeout'):
        out.append(Violation(PROP, 'run-does-not-terminate', {
            'note': 'a run exceeded the wall limit (time axis overruns)'}))
        return out, v.stats
    if not v.ok:
        return out, v.stats
    done = set()

    def viol(sig, **kw):
        if sig in done:
            return
        done.add(sig)
        out.append(Violation(PROP, sig, kw))
    for ep in v.epochs:
        if ep['dump'] is None:
            continue
        t = ep['dump']['time']
        prev_end = None
        for seg in ep['segments']:
            if seg['exc'] is not None:
                break
            v.stats['segments'] += 1
            v.stats['instants'] += seg['i1'] - seg['i0']
            dtq = seg['dt_q']
            dt = rm.dec(dtq[0]) * rm.TIME_DEC[dtq[1]]
            n_req = seg['n_req']
            kind = 'fresh' if seg['fresh'] else 'continued'
            if seg['fresh']:
                start = Decimal(0)
                if seg['i1'] < 1 or t[0] != 0:
                    viol('fresh/first-instant-not-zero', first=t[:1])
                    continue
                first_new = 1
            else:
                start = Decimal(repr(t[seg['i0'] - 1]))
                first_new = seg['i0']
                v.stats['continued'] += 1
                # unit of the continuation differs from the recorded axis?
            added = seg['i1'] - first_new
            stopped = seg['stop'] is not None
            if stopped:
                v.stats['with_stop'] += 1
            tag = f"{kind}/{'unit-switch/' if seg.get('unit_switch') else ''}"
            if added > n_req:
                viol(f'{kind}/overrun', requested_steps=n_req, recorded=added,
                     dt=dtq, T=seg['T_presented'],
                     last=t[seg['i1'] - 1], expected_last=float(start + dt * n_req))
            elif added < n_req and not stopped:
                viol(f'{kind}/too-few-instants', requested_steps=n_req,
                     recorded=added, dt=dtq, T=seg['T_presented'])
            elif added < n_req:
                v.stats['stopped_early'] += 1
            end = float(start + dt * n_req)
            scale = max(abs(end), float(dt))
            for j in range(1, min(added, n_req) + 1):
                exp = float(start + dt * j)
                got = t[first_new + j - 1]
                if got is None or abs(got - exp) > 1e-9 * scale:
                    viol(f'{kind}/off-grid', index=j, recorded=got,
                         expected=exp, dt=dtq, start=float(start))
                    break
            if added == n_req and not stopped or added == n_req:
                v.stats['full_length'] += 1
    return out, v.stats


def pattern(scn, H, st):
    import math
    out = []
    for o in scn['schedule']:
        if o['op'] == 'run':
            out.append((o['dt'][1], o.get('T_mode'), (o.get('T') or [0, ''])[1],
                        int(math.floor(math.log10(o['dt'][0]))),
                        o['n'] // 20, o.get('stop') is not None))
    return tuple(out)
