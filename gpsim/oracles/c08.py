"""C08 - DC motor torque and current follow the documented characteristic.

(a) law at every recorded instant (speed, duty, torque, current);
(b) exact mirror run: negating initial state, duty history and load must
    negate every signed series.
"""
import copy

from .. import refmodel as rm
from ..execu import mirror_load
from .common import View, Violation, close, POS, SPD, ACC, TQ, DTQ, LTQ

PROP = 'C08'
SIGNED = (POS, SPD, ACC, TQ, DTQ, LTQ, 'pwm', 'electric current')
UNSIGNED = ('tangential force', 'bending stress', 'contact stress')


def nontrivial(st):
    return st.get('law_instants', 0) > 0


def mirrored(scn):
    m = copy.deepcopy(scn)
    m['init']['position'][0] = -m['init']['position'][0]
    m['init']['speed'][0] = -m['init']['speed'][0]
    if m['init'].get('pwm') is None:
        m['init']['pwm'] = -1
    else:
        m['init']['pwm'] = -m['init']['pwm']
    m['load'] = mirror_load(m['load'])
    for op in m.get('schedule', []):
        if op['op'] == 'set_pwm':
            op['value'] = -op['value']
    for rule in m.get('rules', []):
        rule['table'] = {k: (None if v is None else -v)
                         for k, v in rule['table'].items()}
    return m


def law_check(v, out, st):
    mot = v.mot
    dlim = rm.motor_dlim(mot)
    done = set()

    def viol(sig, **kw):
        if sig in done:
            return
        done.add(sig)
        out.append(Violation(PROP, sig, kw))
    for ep in v.epochs:
        if ep['dump'] is None or not v.finite_epoch(ep):
            continue
        n = v.n_valid(ep)
        w = v.series(ep, 0, SPD)
        D = v.series(ep, 0, DTQ)
        pwm = v.series(ep, 0, 'pwm') or []
        cur = v.series(ep, 0, 'electric current')
        for seg in ep['segments']:
            if seg['exc'] is not None and seg['exc'][0] == 'ZeroDivisionError':
                k = seg['i1'] - 1
                viol('current-law/raises-ZeroDivisionError',
                     message=seg['exc'][1], instant=k,
                     dead_zone_edge=dlim,
                     note='the duty cycle in force is outside the dead zone '
                          'by rounding only; the documented value there is i0')
        for k in range(min(n, len(pwm))):
            d = pwm[k]
            ref = rm.motor_torque(mot, w[k], d)
            ts, cs = rm.motor_scales(mot, w[k], d)
            st['law_instants'] += 1
            if dlim is not None:
                if abs(d) <= dlim:
                    st['dead_zone_instants'] += 1
                if dlim and abs(abs(d) - dlim) <= 4e-16 * dlim:
                    st['F_BOUNDARY_dead_zone_edge'] += 1
            if abs(w[k]) > mot['w0']:
                st['beyond_no_load_speed'] += 1
            if w[k] < 0:
                st['negative_speed'] += 1
            if d < 0:
                st['negative_duty'] += 1
            if not close(D[k], ref, scale=ts):
                viol('torque-law', instant=k, recorded=D[k], reference=ref,
                     speed=w[k], duty=d, dead_zone_edge=dlim)
            if dlim is not None and abs(d) <= dlim and D[k] != 0 and \
                    abs(abs(d) - dlim) > 1e-9 * dlim:
                viol('torque-not-zero-in-dead-zone', instant=k, recorded=D[k],
                     duty=d, dead_zone_edge=dlim)
            if cur is not None and k < len(cur) and dlim is not None:
                refc = rm.motor_current(mot, w[k], d)
                st['current_instants'] += 1
                if not close(cur[k], refc, scale=cs):
                    viol('current-law', instant=k, recorded=cur[k],
                         reference=refc, speed=w[k], duty=d,
                         dead_zone_edge=dlim)


def probe_check(v, H, out, st):
    """Direct calls of compute_torque / compute_electric_current on user-set
    (speed, duty), with the live torque optionally re-expressed in another
    unit in between."""
    mot = v.mot
    dlim = rm.motor_dlim(mot)
    for rec in H['ops']:
        if rec['op'] != 'motor_probe':
            continue
        for q, r in zip(v.scn['schedule'][rec['i']]['points'], rec['points']):
            st['probe_points'] += 1
            if q.get('relabel'):
                st['probe_relabelled'] += 1
            if r['exc'] is not None:
                out.append(Violation(PROP, f"probe/raises-{r['exc'][0]}", {
                    'point': q, 'message': r['exc'][1]}))
                return
            ref = rm.motor_torque(mot, r['w'], r['pwm'])
            ts, cs = rm.motor_scales(mot, r['w'], r['pwm'])
            if not close(r['T'], ref, scale=ts):
                out.append(Violation(PROP, 'probe/torque-law', {
                    'point': q, 'recorded': r['T'], 'reference': ref}))
                return
            if 'i' in r and dlim is not None:
                refc = rm.motor_current(mot, r['w'], r['pwm'])
                if not close(r['i'], refc, scale=cs):
                    out.append(Violation(PROP, 'probe/current-law' + (
                        '/torque-in-another-unit' if q.get('relabel') else ''), {
                        'point': q, 'recorded': r['i'], 'reference': refc,
                        'torque': r['T']}))
                    return


def run(scn, H, execu):
    v = View(scn, H)
    out = []
    st = v.stats
    if not v.ok:
        return H, out, st
    law_check(v, out, st)
    probe_check(v, H, out, st)
    # mirror run: only meaningful where the documented law is odd in (D, w):
    # motors with current data, full-density scripted duty history
    rules = scn.get('rules', [])
    if scn.get('profile') != 'motor' or rm.motor_dlim(v.mot) is None or \
            len(rules) != 1 or rules[0]['kind'] != 'Scripted' or v.aborted:
        return H, out, st
    m = mirrored(scn)
    HM = execu.execute(m)
    vm = View(m, HM)
    if not vm.ok or vm.aborted:
        if vm.ok and vm.aborted and not v.aborted:
            out.append(Violation(PROP, 'mirror/raises', {
                'exception': [s['exc'] for e in vm.epochs
                              for s in e['segments'] if s['exc']]}))
        return H, out, st
    ea, eb = v.epochs[0], vm.epochs[0]
    if ea['dump'] is None or eb['dump'] is None:
        return H, out, st
    if not (v.finite_epoch(ea) and vm.finite_epoch(eb)):
        st['discarded_nonfinite'] += 1
        return H, out, st
    na, nb = v.n_valid(ea), vm.n_valid(eb)
    st['mirror_runs'] += 1
    if na != nb:
        out.append(Violation(PROP, 'mirror/length', {'a': na, 'b': nb}))
        return H, out, st
    for p in range(v.N):
        ta = ea['dump']['elems'][p]['tv']
        tb = eb['dump']['elems'][p]['tv']
        for var in ta:
            sgn = -1.0 if var in SIGNED else 1.0
            xs, ys = ta[var], tb.get(var, [])
            sc = max([abs(x) for x in xs if x is not None] + [0.0])
            if var in (TQ,):
                sc = max(sc, max([abs(x) for x in ta[DTQ]] + [0.0]))
            for k in range(min(len(xs), len(ys), na)):
                st['mirror_samples'] += 1
                a, b = xs[k], ys[k]
                if a is None or b is None:
                    continue
                if abs(a - sgn * b) > 1e-12 * sc + 1e-300:
                    out.append(Violation(PROP, f'mirror/{var}', {
                        'instant': k, 'element': p, 'run': a, 'mirror': b,
                        'scale': sc}))
                    return H, out, st
    return H, out, st


def check(scn, H, view=None):
    v = view or View(scn, H)
    out = []
    if v.ok:
        law_check(v, out, v.stats)
    return out, v.stats
