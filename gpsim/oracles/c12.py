"""C12 - continuation and reset/rerun reproduce the same history.

Differential between two simulated executions of the same model:
  split : the scenario's segments (B) against one run of the total length (A)
  rerun : epoch after reset + re-applied initial conditions against epoch 0
"""
import copy

from .common import (View, Violation, POS, SPD, ACC, TQ, DTQ, LTQ,
                     decision_margins)

PROP = 'C12'
VARS = (POS, SPD, ACC, TQ, DTQ, LTQ, 'pwm', 'electric current',
        'tangential force', 'bending stress', 'contact stress')


def nontrivial(st):
    return st.get('compared_instants', 0) > 0


def merged(scn):
    """A: one run of the total number of steps with the first segment's dt."""
    runs = [o for o in scn['schedule'] if o['op'] == 'run']
    a = copy.deepcopy(scn)
    op = copy.deepcopy(runs[0])
    op['n'] = sum(o['n'] for o in runs)
    op['T_mode'] = 'product'
    op.pop('T', None)
    a['schedule'] = [op]
    return a


def scales(view, ep):
    """per (chain position, variable) scale of the series of an epoch."""
    out = {}
    d = ep['dump']
    for p, e in enumerate(d['elems']):
        tv = e['tv']
        tq = max([abs(x) for var in (TQ, DTQ, LTQ) for x in tv.get(var, [])
                  if x is not None] + [0.0])
        for var, xs in tv.items():
            s = max([abs(x) for x in xs if x is not None] + [0.0])
            if var in (TQ, DTQ, LTQ):
                s = tq
            out[(p, var)] = s
        # acceleration: scale from the torques it is a difference of
        rto = 1.0
        for q in range(p + 1, view.N):
            rto *= view.r[q]
        lastq = max([abs(x) for var in (TQ, DTQ, LTQ)
                     for x in d['elems'][-1]['tv'].get(var, [])
                     if x is not None] + [0.0])
        out[(p, ACC)] = max(out.get((p, ACC), 0.0), lastq / view.J_eq * rto)
    return out


def compare(view_a, ep_a, view_b, ep_b, rel, stats):
    """first divergence between two epochs: None or dict."""
    da, db = ep_a['dump'], ep_b['dump']
    na, nb = view_a.n_valid(ep_a), view_b.n_valid(ep_b)
    n = min(na, nb)
    sa = scales(view_a, ep_a)
    sb = scales(view_b, ep_b)
    first = None
    tmax = max([abs(x) for x in da['time'] + db['time'] if x is not None] + [0.0])
    for k in range(n):
        if abs(da['time'][k] - db['time'][k]) > 1e-9 * tmax + 1e-300:
            first = {'k': k, 'what': 'time', 'a': da['time'][k],
                     'b': db['time'][k]}
            break
    for p in range(view_a.N):
        ta, tb = da['elems'][p]['tv'], db['elems'][p]['tv']
        if set(ta) != set(tb):
            return {'k': 0, 'what': 'variable-set', 'a': sorted(ta),
                    'b': sorted(tb)}
        for var in ta:
            xa, xb = ta[var], tb[var]
            sc = max(sa.get((p, var), 0.0), sb.get((p, var), 0.0))
            m = min(len(xa), len(xb), n)
            root = var == 'contact stress'
            for k in range(m):
                if first is not None and k >= first['k']:
                    break
                a, b = xa[k], xb[k]
                if a is None or b is None:
                    if a is not b:
                        first = {'k': k, 'what': var, 'pos': p, 'a': a, 'b': b}
                    continue
                if root:
                    # sigma ~ sqrt(force): near zero force a rounding
                    # residual eps shows up as sqrt(eps); compare squares
                    if abs(a * a - b * b) > rel * sc * sc + 1e-300:
                        first = {'k': k, 'what': var, 'pos': p, 'a': a,
                                 'b': b, 'scale': sc}
                        break
                    continue
                if abs(a - b) > rel * sc + 1e-300:
                    first = {'k': k, 'what': var, 'pos': p, 'a': a, 'b': b,
                             'scale': sc}
                    break
    stats['compared_instants'] += n
    if first is None and na != nb:
        first = {'k': n, 'what': 'length', 'a': na, 'b': nb}
    return first


def fragile(views_eps, k):
    """is the divergence at instant k explained by a discrete decision that
    is within rounding distance of its threshold in one of the executions?"""
    for view, ep in views_eps:
        # a self-locking train at rest hides its state (held or free) behind
        # identical records: a lock or dead-zone decision within rounding of
        # its threshold may show many instants later.  All instants up to the
        # divergence are examined there, its neighbours otherwise
        span = range(0, k + 2) if view.self_locking else (k - 1, k, k + 1)
        for kk in span:
            if kk < 0:
                continue
            for name, margin in decision_margins(view, ep, kk):
                if margin <= 1e-6:
                    return name
    return None


def amplifies_rounding(scn, execu, rel):
    """Control experiment: does the model itself blow a one-ulp change of
    the initial position up beyond the comparison tolerance?  If so the
    differential cannot judge it (numerically unstable scenario)."""
    a = copy.deepcopy(scn)
    b = copy.deepcopy(a)
    # perturbations far above one ulp and far below the tolerance: a model
    # that turns 1e-13 into more than rel/100 amplifies rounding by > 1e3
    p = b['init']['position']
    p[0] = p[0] * (1 + 1e-13) if p[0] != 0 else 1e-13
    w = b['init']['speed']
    w[0] = w[0] * (1 + 1e-13)
    if b.get('load'):
        b['load']['noise'] = 1e-13
    # ... and on the dominant terms of the dynamics (a load that is small
    # against the motor torque would otherwise under-excite the experiment)
    for e in b['elements']:
        if e['kind'] == 'DCMotor':
            e['Tmax'] = [e['Tmax'][0] * (1 + 1e-13), e['Tmax'][1]]
            e['w0'] = [e['w0'][0] * (1 - 1e-13), e['w0'][1]]
    HA, HB = execu.execute(a), execu.execute(b)
    va, vb = View(a, HA), View(b, HB)
    if not (va.ok and vb.ok):
        return False
    from collections import Counter
    for ea, eb in zip(va.epochs, vb.epochs):
        if ea['dump'] is None or eb['dump'] is None:
            continue
        d = compare(va, ea, vb, eb, rel / 100, Counter())
        if d is not None and d['what'] != 'length':
            return True
    return False


def check_pair(out, tag, va, ea, vb, eb, rel, stats, scn=None, execu=None):
    if not (va.finite_epoch(ea) and vb.finite_epoch(eb)):
        stats['discarded_nonfinite'] += 1
        return
    d = compare(va, ea, vb, eb, rel, stats)
    stats['pairs_' + tag.split('/')[0]] += 1
    if d is None:
        return
    why = fragile([(va, ea), (vb, eb)], d['k'])
    if why:
        stats['threshold_fragile'] += 1
        return
    if scn is not None and rel > 1e-11 and amplifies_rounding(scn, execu, rel):
        stats['discarded_unstable'] += 1
        return
    out.append(Violation(PROP, f"{tag}/{d['what']}", d))


def run(scn, H, execu):
    v = View(scn, H)
    out = []
    st = v.stats
    if H.get('timeout'):
        out.append(Violation(PROP, 'run-does-not-terminate', {}))
        return H, out, st
    if not v.ok or v.aborted:
        return H, out, st
    mode = scn.get('mode')
    if mode == 'split':
        unit_switch = len({o['dt'][1] for o in scn['schedule']
                           if o['op'] == 'run'}) > 1
        a = merged(scn)
        HA = execu.execute(a)
        va = View(a, HA)
        if HA.get('timeout'):
            return H, out, st
        if not va.ok or va.aborted or va.epochs[0]['dump'] is None:
            return H, out, st
        eb = v.epochs[0]
        if eb['dump'] is None:
            return H, out, st
        st['instants'] += v.n_valid(eb)
        if unit_switch:
            st['unit_switch_splits'] += 1
        if v.self_locking:
            lt = v.lock_trace(eb)
            for s in eb['segments'][:-1]:
                if s['i1'] - 1 < len(lt) and lt[s['i1'] - 1]['impl']:
                    st['segment_ended_held'] += 1
        check_pair(out, 'split' + ('/unit-switch' if unit_switch else ''),
                   va, va.epochs[0], v, eb, 1e-9, st, scn, execu)
    else:
        eps = [e for e in v.epochs if e['dump'] is not None]
        if len(eps) < 2:
            return H, out, st
        e0, e1 = eps[0], eps[1]
        reset_op = next((o for o in scn['schedule'] if o['op'] == 'reset'), {})
        if not reset_op.get('reapply_pwm', True):
            # the user re-applied position and speed only; reset() restores
            # the duty cycle recorded at t = 0, which reproduces the original
            # start only if the controller had applied the pre-run value
            pwm0 = v.series(e0, 0, 'pwm')
            if not pwm0 or not e0['segments'] or \
                    pwm0[0] != e0['segments'][0]['pwm_in']:
                st['rerun_not_comparable'] += 1
                return H, out, st
            st['rerun_pwm_left_to_reset'] += 1
        st['instants'] += v.n_valid(e0) + v.n_valid(e1)
        new = any(s['new_solver'] for s in e1['segments'])
        st['rerun_new_solver' if new else 'rerun_same_solver'] += 1
        if v.self_locking:
            lt = v.lock_trace(e0)
            if lt and lt[-1]['impl']:
                st['epoch_ended_held'] += 1
        check_pair(out, 'rerun/' + ('new-solver' if new else 'same-solver'),
                   v, e0, v, e1, 1e-12, st)
    return H, out, st


def check(scn, H, view=None):
    raise NotImplementedError('C12 is a differential: use run()')
