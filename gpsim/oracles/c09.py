"""C09 - gear tooth force and stresses equal the documented formulas."""
from .. import refmodel as rm
from .common import View, Violation, close, TQ, DTQ, LTQ

PROP = 'C09'
FLAG_NAMES = ('tangential_force_is_computable', 'bending_stress_is_computable',
              'contact_stress_is_computable')


def nontrivial(st):
    return st.get('force_samples', 0) + st.get('flag_checks', 0) > 0


def check(scn, H, view=None):
    v = view or View(scn, H)
    out = []
    st = v.stats
    if H.get('timeout') or not H.get('assembled') or \
            any(b['exc'] for b in H['build']):
        return out, st
    if not v.ok:
        return out, st
    done = set()

    def viol(sig, **kw):
        if sig in done:
            return
        done.add(sig)
        out.append(Violation(PROP, sig, kw))
    esi, model = v.esi, v.model
    # -- flags: before mating (own data) and after assembly
    for stage, flags in (('constructed', None), ('assembled', H.get('flags_assembled'))):
        if flags is None:
            continue
        for i, e in enumerate(esi):
            if e['kind'] not in rm.GEAR_KINDS + ('WormGear',):
                continue
            mate = esi[model.mate[i]] if model.mate[i] is not None else None
            exp = rm.flags(e, mate, mated=mate is not None)
            got = flags[i]
            for name, x in zip(FLAG_NAMES, exp):
                if x is None:
                    continue
                st['flag_checks'] += 1
                if got.get(name) is not x:
                    viol(f"flag/{e['kind']}/{name}", element=i, expected=x,
                         got=got.get(name), data={k: e.get(k) is not None
                                                  for k in ('m', 'b', 'E', 'd')},
                         mate_has_diameter=None if mate is None
                         else mate.get('d') is not None)
            if e['kind'] in rm.GEAR_KINDS and exp[1]:
                st['lewis_checks'] += 1
                Y = rm.gear_lewis(e)
                if not close(got.get('lewis_factor'), Y, rel=1e-9):
                    viol(f"lewis-factor/{e['kind']}", element=i, teeth=e['z'],
                         got=got.get('lewis_factor'), expected=Y)
                if 'z' in e:
                    st['teeth_%s' % ('10-20' if e['z'] <= 20 else '21-100'
                                     if e['z'] <= 100 else '101-500'
                                     if e['z'] <= 500 else '>500')] += 1
    # -- F-MISSINGDATA: a contact stress whose mate lacks module / modulus
    missing = []
    for c in v.chain:
        e = esi[c]
        if e['kind'] in ('SpurGear', 'HelicalGear') and model.mate[c] is not None:
            mate = esi[model.mate[c]]
            f = rm.flags(e, mate, True)
            if f[2] and (mate.get('m') is None or mate.get('E') is None):
                missing.append(c)
    first = v.epochs[0]['segments'][0] if v.epochs[0]['segments'] else None
    if first is not None:
        raised = first['exc'] is not None and first['exc'][0] == 'ValueError' \
            and 'contact stress' in first['exc'][1]
        if missing:
            st['F_MISSINGDATA_expected'] += 1
            if not raised:
                viol('missing-mate-data-not-rejected', elements=missing,
                     exception=first['exc'])
        elif raised:
            viol('contact-stress-rejected-with-full-data',
                 exception=first['exc'])
    # -- values at every recorded instant
    for ep in v.epochs:
        if ep['dump'] is None or not v.finite_epoch(ep):
            continue
        n = v.n_valid(ep)
        for p, c in enumerate(v.chain):
            e = esi[c]
            if e['kind'] not in rm.GEAR_KINDS:
                continue
            mate = esi[model.mate[c]] if model.mate[c] is not None else None
            f = rm.flags(e, mate, mated=mate is not None)
            tv = ep['dump']['elems'][p]['tv']
            if not f[0] or model.role[c] is None:
                continue
            ref_series = tv[LTQ] if model.role[c] == 'MatingMaster' else tv[DTQ]
            st['role_' + model.role[c]] += 1
            F = tv.get('tangential force')
            B = tv.get('bending stress')
            C = tv.get('contact stress')
            if e['kind'] == 'WormWheel':
                st['worm_alpha_%g' % round(e['alpha'] * 180 / 3.141592653589793, 1)] += 1
            for k in range(n):
                Ft = rm.tangential_force(e, ref_series[k])
                if F is None or k >= len(F):
                    viol(f"force-not-recorded/{e['kind']}", element=p)
                    break
                st['force_samples'] += 1
                if ref_series[k] < 0:
                    st['negative_reference_torque'] += 1
                if not close(F[k], Ft):
                    viol(f"tangential-force/{e['kind']}/{model.role[c]}",
                         instant=k, element=p, recorded=F[k], reference=Ft,
                         torque=ref_series[k], teeth=e['z'], module=e['m'])
                    break
                if f[1] and B is not None and k < len(B):
                    st['bending_samples'] += 1
                    ref = rm.bending_stress(e, Ft, mate)
                    if not close(B[k], ref):
                        viol(f"bending-stress/{e['kind']}", instant=k,
                             element=p, recorded=B[k], reference=ref,
                             force=Ft, teeth=e['z'])
                        break
                if f[2] and C is not None and k < len(C) and mate is not None \
                        and mate.get('m') is not None and mate.get('E') is not None:
                    st['contact_samples'] += 1
                    ref = rm.contact_stress(e, Ft, mate)
                    if not close(C[k], ref):
                        viol(f"contact-stress/{e['kind']}", instant=k,
                             element=p, recorded=C[k], reference=ref, force=Ft)
                        break
    return out, st


def pattern(scn, H, st):
    return tuple(sorted(k for k in st if k.startswith('teeth_') or
                        k.startswith('worm_alpha') or k.startswith('role_')))
