"""C03 - equation of motion and time-step update of the output element."""
from .common import View, Violation, close, POS, SPD, ACC, TQ

PROP = 'C03'


def check(scn, H, view=None):
    v = view or View(scn, H)
    out = []
    if not v.ok:
        return out, v.stats
    N = v.N
    th_init, w_init = v.init_si()
    for ep in v.epochs:
        if ep['dump'] is None:
            continue
        if not v.finite_epoch(ep):
            v.stats['discarded_nonfinite'] += 1
            continue
        n = v.n_valid(ep)
        th = v.series(ep, N - 1, POS)
        w = v.series(ep, N - 1, SPD)
        a = v.series(ep, N - 1, ACC)
        T = v.series(ep, N - 1, TQ)
        lock = v.lock_trace(ep)
        done = set()

        def viol(sig, k, **kw):
            if sig in done:
                return
            done.add(sig)
            kw.update(epoch=ep['index'], instant=k)
            out.append(Violation(PROP, sig, kw))
        for st in lock:
            k = st['k']
            v.stats['instants'] += 1
            held = st['held']
            if held is None:
                v.stats['lock_state_unknown'] += 1
                continue
            # (a) equation of motion
            if not held:
                ref = T[k] / v.J_eq
                if not close(a[k], ref):
                    viol('eom', k, acceleration=a[k], torque=T[k],
                         J_eq=v.J_eq, reference=ref, undecided=st['und'])
            else:
                v.stats['held_instants'] += 1
            # (b) time-step update
            if k == 0:
                if ep['index'] == 0 or ep['reapplied']:
                    if th_init is not None and not close(th[0], th_init):
                        viol('initial-position', 0, recorded=th[0],
                             initial=th_init)
                    if w_init is not None and not held and \
                            not close(w[0], w_init):
                        viol('initial-speed', 0, recorded=w[0], initial=w_init)
                continue
            dt = st['dt']
            w_adv = st['w_adv']
            if st['first']:
                v.stats['continuation_boundaries'] += 1
            exp_w = 0.0 if held else w_adv
            th_prev, w_prev = th[k - 1], w[k - 1]
            if st.get('state_in'):
                # position / speed assigned by the user since the last run
                th_prev = st['state_in'].get('th', th_prev)
                w_prev = st['state_in'].get('w', w_prev)
            sc = max(abs(w_prev), abs(a[k - 1] * dt))
            if not close(w[k], exp_w, scale=sc):
                viol('speed-update', k, recorded=w[k], expected=exp_w,
                     prev_speed=w_prev, prev_acc=a[k - 1], dt=dt,
                     held=held, undecided=st['und'])
            exp_th = th_prev + w_adv * dt
            sc = max(abs(th_prev), abs(w_adv * dt))
            if not close(th[k], exp_th, scale=sc):
                viol('position-update', k, recorded=th[k], expected=exp_th,
                     prev_position=th_prev, advanced_speed=w_adv, dt=dt,
                     held=held)
    return out, v.stats
