"""C04 - trajectories converge to the closed-form solution as dt shrinks."""
import copy
import math

from .. import si
from .. import refmodel as rm
from .common import View, Violation, POS, SPD

PROP = 'C04'


def nontrivial(st):
    return st.get('families', 0) > 0


def variant(scn, k, kdt):
    c = scn['conv']
    b = copy.deepcopy(scn)
    u = c['unit']
    dt_si = kdt / k
    n = int(round(c['horizon'] / kdt))
    dtv = dt_si / si.factor('TimeInterval', u)
    ctrl = bool(c['via_rule'])
    if c['split'] and n >= 6:
        cuts = sorted({max(2, min(n - 2, int(n * f))) for f in c['split_at']})
        parts = []
        prev = 0
        for x in cuts + [n]:
            if x - prev >= 2:
                parts.append(x - prev)
                prev = x
        if sum(parts) != n:
            parts = [n]
    else:
        parts = [n]
    b['schedule'] = [{'op': 'run', 'dt': [dtv, u], 'n': p, 'T_mode': 'product',
                      'control': ctrl, 'stop': None, 'solver': 'same'}
                     for p in parts]
    return b, dt_si, n


def run(scn, H0, execu):
    from collections import Counter
    st = Counter()
    out = []
    esi = [rm.elem_si(e) for e in scn['elements']]
    model = rm.DeclModel(esi)
    for d in scn['decls']:
        model.apply(d)
    chain = model.chain(0)
    mot = esi[0]
    k1, R, E, J = rm.rate_constant(model, chain)
    D = scn['rules'][0]['value'] if scn['conv']['via_rule'] else scn['init']['pwm']
    dlim = rm.motor_dlim(mot)
    if dlim is None:
        TD, wD = mot['Tmax'], mot['w0']
    else:
        if D > 0:
            TD = mot['Tmax'] * (D * mot['imax'] - mot['i0']) / (mot['imax'] - mot['i0'])
        else:
            TD = mot['Tmax'] * (D * mot['imax'] + mot['i0']) / (mot['imax'] - mot['i0'])
        wD = D * mot['w0']
    k = TD * E * R * R / (wD * J)
    TL = scn['load']['terms'][0]['c']
    a = (TD * E * R - TL) / J
    th0 = si.q_si('AngularPosition', scn['init']['position'])
    w_init = si.q_si('AngularSpeed', scn['init']['speed'])
    w_inf = a / k
    amp = abs(w_init - w_inf)
    errs = []
    H0['_measured_scn'] = scn
    Hlast = H0
    for kdt in scn['conv']['kdts']:
        b, dt, n = variant(scn, k, kdt)
        H = execu.execute(b)
        H['_measured_scn'] = b
        Hlast = H
        v = View(b, H)
        if not v.ok or v.aborted or v.epochs[0]['dump'] is None:
            st['aborted'] += 1
            return Hlast, out, st
        if v.self_locking:
            # a self-locking chain follows the closed form as long as the
            # lock never engages (load aiding the commanded motion)
            lt = v.lock_trace(v.epochs[0])
            if any(x['held'] is not False or x['impl'] for x in lt):
                st['self_locking_held_skipped'] += 1
                return Hlast, out, st
            st['self_locking_never_held'] += 1
        ep = v.epochs[0]
        nn = v.n_valid(ep)
        t = ep['dump']['time']
        w = v.series(ep, v.N - 1, SPD)
        th = v.series(ep, v.N - 1, POS)
        if nn != n + 1:
            out.append(Violation(PROP, 'family/instants', {
                'expected': n + 1, 'got': nn, 'kdt': kdt}))
            return Hlast, out, st
        st['runs'] += 1
        st['instants'] += nn
        if len(ep['segments']) > 1:
            st['split_runs'] += 1
        floor_w = 1e-9 * max(abs(w_init), abs(w_inf), 1e-300)
        floor_th = 1e-9 * max(abs(th0), abs(w_inf * t[-1]), amp / k, 1e-300)
        worst_w = worst_th = 0.0
        for j in range(nn):
            wr, dth = rm.closed_form(a, k, w_init, t[j])
            ew = abs(w[j] - wr)
            eth = abs(th[j] - (th0 + dth))
            bw = 0.3 * kdt * amp + floor_w
            bth = 1.5 * dt * amp + floor_th
            worst_w = max(worst_w, ew / bw)
            worst_th = max(worst_th, eth / bth)
            if ew > bw:
                out.append(Violation(PROP, 'speed-error-bound', {
                    'kdt': kdt, 'instant': j, 'time': t[j], 'simulated': w[j],
                    'closed_form': wr, 'error': ew, 'bound': bw,
                    'k': k, 'duty': D}))
                return Hlast, out, st
            if eth > bth:
                out.append(Violation(PROP, 'position-error-bound', {
                    'kdt': kdt, 'instant': j, 'time': t[j],
                    'simulated': th[j], 'closed_form': th0 + dth,
                    'error': eth, 'bound': bth, 'k': k, 'duty': D}))
                return Hlast, out, st
        jstar = int(round(1.0 / kdt))
        wr, _ = rm.closed_form(a, k, w_init, t[jstar])
        errs.append((kdt, abs(w[jstar] - wr)))
    st['families'] += 1
    if TL > abs(TD * E * R):
        st['load_above_stall'] += 1
    if D < 0:
        st['negative_duty'] += 1
    scale = max(abs(w_init), abs(w_inf), 1e-300)
    if amp > 1e-6 * scale:
        for (k1_, e1), (k2_, e2) in zip(errs, errs[1:]):
            if e2 <= 1e-11 * scale:
                continue
            ratio = e1 / e2
            st['ratios'] += 1
            if not 1.6 <= ratio <= 2.6:
                out.append(Violation(PROP, 'error-ratio', {
                    'kdt_pair': [k1_, k2_], 'errors': [e1, e2],
                    'ratio': ratio, 'k': k, 'duty': D}))
                return Hlast, out, st
    else:
        st['at_equilibrium'] += 1
    return Hlast, out, st


def check(scn, H, view=None):
    raise NotImplementedError('C04 runs a family of executions: use run()')


def pattern(scn, H, st):
    c = scn['conv']
    return (c['horizon'], c['split'], c['via_rule'],
            scn['elements'][0].get('i0') is not None,
            math.copysign(1, scn['init']['pwm'] or 1))
