"""C18 - snapshot and export report the recorded history faithfully."""
import math

from .. import si
from .common import View, Violation

PROP = 'C18'
ORDER = si.VAR_ORDER
DEFAULT_UNITS = {
    'angular position': ('angular_position_unit', 'rad'),
    'angular speed': ('angular_speed_unit', 'rad/s'),
    'angular acceleration': ('angular_acceleration_unit', 'rad/s^2'),
    'torque': ('torque_unit', 'Nm'),
    'driving torque': ('driving_torque_unit', 'Nm'),
    'load torque': ('load_torque_unit', 'Nm'),
    'tangential force': ('force_unit', 'N'),
    'bending stress': ('stress_unit', 'MPa'),
    'contact stress': ('stress_unit', 'MPa'),
    'electric current': ('current_unit', 'A'),
}


def nontrivial(st):
    return st.get('snapshots', 0) + st.get('exports', 0) > 0


def unit_of(var, kw):
    key, default = DEFAULT_UNITS[var]
    return kw.get(key, default)


def col(var, kw):
    if var == 'pwm':
        return 'pwm'
    return f'{var} ({unit_of(var, kw)})'


def conv(var, x_si, kw):
    if var == 'pwm' or x_si is None:
        return x_si
    return x_si / si.factor(si.VAR_KIND[var], unit_of(var, kw))


def last_dump(H, upto):
    d = None
    for rec in H['ops']:
        if rec['i'] >= upto:
            break
        if rec.get('dump') is not None:
            d = rec['dump']
        if rec['op'] == 'run' and rec['exc'] is not None:
            return None
    return d


def check(scn, H, view=None):
    v = view or View(scn, H)
    out = []
    st = v.stats
    if not v.ok:
        return out, st
    done = set()

    def viol(sig, **kw):
        if sig in done:
            return
        done.add(sig)
        out.append(Violation(PROP, sig, kw))
    names = [scn['elements'][c]['name'] for c in v.chain]
    kinds = [v.esi[c]['kind'] for c in v.chain]
    for rec in H['ops']:
        op = scn['schedule'][rec['i']]
        if rec['op'] not in ('snapshot', 'export'):
            continue
        d = last_dump(H, rec['i'])
        if d is None or d['n'] < 2:
            continue
        n = d['n']
        # only judge consistent histories (C17 owns the others)
        recorded = []
        consistent = True
        for e in d['elems']:
            rv = {}
            for var in e['vars']:
                if e['len'][var] == n and not e['bad'][var]:
                    rv[var] = e['tv'][var]
                else:
                    consistent = False
            recorded.append(rv)
        if any(x is None or not math.isfinite(x) or abs(x) > 1e150
               for rv in recorded for xs in rv.values() for x in xs):
            st['discarded_nonfinite'] += 1
            continue
        kw = op.get('units', {})
        t = d['time']
        if rec['op'] == 'snapshot':
            if rec['exc'] is not None:
                st['snapshot_raised'] += 1
                edge = 'within simulation interval' in rec['exc'][1] and (
                    rec['t_si'] >= t[-1] * (1 - 1e-12) or
                    rec['t_si'] <= t[0]) if rec.get('t_si') is not None \
                    else True
                # (the documented rejection of a target that a unit
                # conversion has rounded an ulp beyond the last instant is
                # not judged)
                if consistent and rec.get('t_si') is not None and \
                        not edge and rec['exc'][0] != 'TimeoutError':
                    # a legal target (inside the simulated interval, ends
                    # included) on a consistent history must be answered
                    viol(f"snapshot/raises/{rec['exc'][0]}",
                         message=rec['exc'][1], target=rec.get('t_si'),
                         t_index=rec.get('t_index'), last_instant=t[-1],
                         op_index=rec['i'])
                continue
            st['snapshots'] += 1
            tt = rec['t_si']
            df = rec['df']
            req = op.get('vars')
            if req is None:
                req_set = {var for rv in d['elems'] for var in rv['vars']}
                st['snapshot_default_vars'] += 1
            else:
                req_set = set(req)
                st['snapshot_selected_vars'] += 1
                st[f'subset_size_{min(len(req_set), 4)}'] += 1
            exp_cols = [col(var, kw) for var in ORDER if var in req_set]
            got_cols = df['columns']
            extra = [c for c in got_cols if c not in exp_cols]
            missing = [c for c in exp_cols if c not in got_cols]
            if extra and req is not None:
                viol(f'snapshot/extra-column/{extra[0].split(" (")[0]}',
                     requested=sorted(req_set), columns=got_cols)
            if missing:
                viol(f'snapshot/missing-column/{missing[0].split(" (")[0]}',
                     requested=sorted(req_set), columns=got_cols)
            # a row is owed to every element that records at least one of
            # the requested variables; rows must come in chain order
            owed = [nm for p, nm in enumerate(names)
                    if any(var in recorded[p] for var in req_set)]
            got_rows = df['index']
            if [nm for nm in names if nm in got_rows] != got_rows or \
                    any(nm not in got_rows for nm in owed):
                viol('snapshot/rows', index=got_rows, owed=owed)
                continue
            # bracket the target time
            kk = None
            for k in range(n - 1):
                if t[k] <= tt <= t[k + 1]:
                    kk = k
                    break
            if kk is None:
                if abs(tt - t[-1]) <= 1e-9 * max(abs(t[-1]), 1e-300):
                    kk = n - 2
                else:
                    continue
            lam = (tt - t[kk]) / (t[kk + 1] - t[kk])
            on_instant = min(abs(tt - x) for x in t) <= 1e-12 * max(abs(t[-1]), 1e-300)
            st['snapshot_on_instant' if on_instant else 'snapshot_between'] += 1
            for p, name in enumerate(names):
                row = df['rows'].get(name, {})
                for var in ORDER:
                    if var not in req_set:
                        continue
                    c = col(var, kw)
                    got = row.get(c)
                    if var in recorded[p]:
                        xs = recorded[p][var]
                        a, b = xs[kk], xs[kk + 1]
                        exp = conv(var, a + (b - a) * lam, kw)
                        sc = conv(var, max(abs(x) for x in xs), kw) or 0.0
                        st['snapshot_values'] += 1
                        if got is None:
                            viol(f'snapshot/value-missing/{kinds[p]}/{var}',
                                 element=name, expected=exp, requested=sorted(req_set))
                        elif abs(got - exp) > 1e-9 * max(abs(sc), abs(exp)) + 1e-300:
                            viol(f'snapshot/value/{var}', element=name,
                                 got=got, expected=exp, between=[a, b],
                                 lam=lam, unit=unit_of(var, kw) if var != 'pwm' else '')
                    elif consistent and var not in d['elems'][p]['vars']:
                        if got is not None:
                            viol(f'snapshot/value-for-unrecorded/{kinds[p]}/{var}',
                                 element=name, got=got)
        else:
            fault = op.get('fault')
            if rec['exc'] is not None:
                if fault:
                    st['export_raised_under_fault'] += 1
                continue
            st['exports'] += 1
            if fault:
                st['export_ok_under_fault' if rec.get('io', {}).get('fired')
                   else 'export_fault_not_reached'] += 1
            files = rec.get('files', {})
            tu = kw.get('time_unit', 'sec')
            for p, name in enumerate(names):
                rows = files.get(name + '.csv')
                if rows is None:
                    viol('export/file-missing', element=name,
                         files=sorted(files), fault=fault)
                    continue
                if not consistent:
                    continue
                e = d['elems'][p]
                exp_head = [f'time ({tu})'] + [col(var, kw) for var in e['vars']]
                if rows[0] != exp_head:
                    viol('export/header', element=name, got=rows[0],
                         expected=exp_head)
                    continue
                if len(rows) - 1 != n:
                    viol('export/row-count', element=name, rows=len(rows) - 1,
                         instants=n, fault=fault)
                    continue
                bad = None
                for k in range(n):
                    r = rows[k + 1]
                    exp_row = [t[k] / si.factor('Time', tu)] + \
                        [conv(var, recorded[p][var][k], kw) for var in e['vars']]
                    for j, (g, x) in enumerate(zip(r, exp_row)):
                        try:
                            gv = float(g)
                        except ValueError:
                            bad = (k, exp_head[j], g, x)
                            break
                        if abs(gv - x) > 1e-9 * max(abs(gv), abs(x)) + 1e-300:
                            bad = (k, exp_head[j], gv, x)
                            break
                    if bad:
                        break
                    st['export_rows'] += 1
                if bad:
                    viol(f'export/value/{bad[1].split(" (")[0]}', element=name,
                         row=bad[0], column=bad[1], got=bad[2], expected=bad[3],
                         fault=fault)
    return out, st


def pattern(scn, H, st):
    return tuple(sorted((o['op'], tuple(sorted(o.get('vars') or [])),
                         str((o.get('fault') or {}).get('kind')))
                        for o in scn['schedule']
                        if o['op'] in ('snapshot', 'export')))
