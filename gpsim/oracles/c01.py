"""C01 - kinematic coupling: neighbours move in the gear ratio."""
from .common import View, Violation, close, POS, SPD, ACC, pair_tag

PROP = 'C01'


def check(scn, H, view=None):
    v = view or View(scn, H)
    out = []
    if not v.ok:
        return out, v.stats
    for ep in v.epochs:
        if ep['dump'] is None:
            continue
        if not v.finite_epoch(ep):
            v.stats['discarded_nonfinite'] += 1
            continue
        n = v.n_valid(ep)
        lock = v.lock_trace(ep) if v.self_locking else None
        for p in range(v.N - 1):
            r = v.r[p + 1]
            for var in (POS, SPD, ACC):
                up = v.series(ep, p, var)
                dn = v.series(ep, p + 1, var)
                for k in range(n):
                    v.stats['pair_instants'] += 1
                    if not close(up[k], r * dn[k]):
                        out.append(Violation(PROP, f'ratio/{var}/{pair_tag(v, p)}', {
                            'epoch': ep['index'], 'instant': k, 'pair': p,
                            'upstream': up[k], 'downstream': dn[k],
                            'expected_ratio': r,
                            'held': bool(lock and k < len(lock) and lock[k]['impl'])}))
                        break
        if lock:
            v.stats['held_instants'] += sum(1 for x in lock if x['impl'])
        v.stats['instants'] += n
        v.stats['continued'] += sum(1 for s in ep['segments'] if not s['fresh'])
        v.stats['early_stop'] += sum(
            1 for s in ep['segments'] if s['stop'] is not None and
            s['i1'] - s['i0'] < s['n_req'] + (1 if s['fresh'] else 0))
    v.stats['epochs'] += len(v.epochs)
    return out, v.stats
