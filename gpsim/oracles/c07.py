"""C07 - results do not depend on the units inputs are expressed in.

Differential simulation: scenario A (as generated) against scenario B, the
same physical model with a seeded unit assigned to EVERY input quantity.
"""
import copy
import random

from .. import si
from .. import refmodel as rm
from .common import View, Violation
from . import c12

PROP = 'C07'

RULE_SITES = {'start': 'Time', 'duration': 'TimeInterval',
              'target': 'AngularPosition', 'brake': 'Angle',
              'limit': 'Current'}
STOP_KIND = {'encoder': 'AngularPosition', 'tachometer': 'AngularSpeed',
             'amperometer': 'Current'}


def nontrivial(st):
    return st.get('compared_instants', 0) > 0 or st.get('builds_compared', 0) > 0


def reunit(scn, seed, stats=None):
    """B: every input quantity re-expressed in a seeded unit of its kind."""
    rng = random.Random(seed * 7919 + 13)
    b = copy.deepcopy(scn)

    def conv(kind, q, unit=None, site=''):
        u = unit or rng.choice(si.units_of(kind))
        if stats is not None:
            stats[f'unit_{kind}:{u}'] += 1
        if u == q[1]:
            return [q[0], u]
        return [q[0] * si.factor(kind, q[1]) / si.factor(kind, u), u]
    els = b['elements']
    # equality-constrained sites share one unit and one converted value
    groups = {}

    def union(a, c):
        ga = groups.setdefault(a, {a})
        gc = groups.setdefault(c, {c})
        if ga is not gc:
            ga |= gc
            for x in gc:
                groups[x] = ga
    for d in b['decls']:
        m, s = d['m'], d['s']
        if d['op'] == 'gear':
            for p in ('m', 'beta'):
                if els[m].get(p) is not None and els[s].get(p) is not None \
                        and els[m][p] == els[s][p]:
                    union((m, p), (s, p))
        elif d['op'] == 'worm':
            for p in ('alpha', 'beta'):
                if els[m].get(p) == els[s].get(p):
                    union((m, p), (s, p))
    done = {}
    for i, e in enumerate(els):
        for p, kind in rm.PARAM_KIND.items():
            if e.get(p) is None:
                continue
            g = groups.get((i, p))
            if g is not None:
                key = min(g)
                if key not in done:
                    done[key] = conv(kind, els[key[0]][key[1]])
                    # mated helical gears may state the same helix angle in
                    # different units: the library compares them with its
                    # tolerance.  Only units in which an angle below 90 deg
                    # is a small number are used (the band is absolute)
                    done[(key, 'own')] = p == 'beta' and \
                        e['kind'] == 'HelicalGear' and rng.random() < 0.5
                if done.get((key, 'own')):
                    e[p] = conv(kind, els[key[0]][key[1]],
                                rng.choice(['rad', 'deg', 'rot']))
                else:
                    e[p] = list(done[key])
            else:
                e[p] = conv(kind, e[p])
    if b.get('init'):
        b['init']['position'] = conv('AngularPosition', b['init']['position'])
        b['init']['speed'] = conv('AngularSpeed', b['init']['speed'])
    if b.get('load'):
        b['load']['unit'] = rng.choice(si.units_of('Torque'))
    for op in b.get('schedule', []):
        if op['op'] == 'run':
            op['dt'] = conv('TimeInterval', op['dt'])
            if 'T' in op:
                op['T'] = conv('TimeInterval', op['T'])
        elif op['op'] == 'set_state':
            if op.get('position') is not None:
                op['position'] = conv('AngularPosition', op['position'])
            if op.get('speed') is not None:
                op['speed'] = conv('AngularSpeed', op['speed'])
    for rule in b.get('rules', []):
        for key, kind in RULE_SITES.items():
            if key in rule:
                rule[key] = conv(kind, rule[key])
    for ss in b.get('stops', []):
        ss['thr'] = conv(STOP_KIND[ss['sensor']], ss['thr'])
    return b


def build_outcome(H):
    return [(b['ev'], b.get('i', b.get('k')), None if b['exc'] is None
             else b['exc'][0]) for b in H['build']]


def run(scn, H, execu):
    v = View(scn, H)
    st = v.stats
    out = []
    b = reunit(scn, scn.get('seed', 0), st)
    HB = execu.execute(b)
    vb = View(b, HB)
    if H.get('timeout') or HB.get('timeout'):
        if bool(H.get('timeout')) != bool(HB.get('timeout')):
            out.append(Violation(PROP, 'one-run-does-not-terminate', {
                'A': bool(H.get('timeout')), 'B': bool(HB.get('timeout'))}))
        return H, out, st
    # -- construction / declaration / assembly outcomes
    oa, ob = build_outcome(H), build_outcome(HB)
    st['builds_compared'] += 1
    if oa != ob:
        diff = next((x, y) for x, y in zip(oa, ob) if x != y)
        ev = next(bb for bb in HB['build'] + H['build']
                  if bb['exc'] is not None and
                  (bb['ev'], bb.get('i', bb.get('k'))) == diff[0][:2])
        msg = ev['exc'][1]
        # an equality/ordering decision within rounding of its threshold
        # (the exclusion written into C07): gearpy's 1e-12 absolute band
        helix_units_small = all(
            e_['beta'][1] in ('rad', 'deg', 'rot')
            for sc_ in (scn, b) for e_ in sc_['elements']
            if e_.get('kind') == 'HelicalGear' and e_.get('beta'))
        if ev['exc'][0] == 'ValueError' and (
                'not available' in msg or 'different' in msg or
                'too high' in msg) and not (
                'helix' in msg and 'different' in msg and helix_units_small):
            # (two equal helix angles stated in rad / deg / rot are far
            # inside the library's tolerance: their rejection is judged)
            st['threshold_fragile'] += 1
            return H, out, st
        kind = scn['elements'][diff[0][1]]['kind'] \
            if diff[0][0] == 'construct' else diff[0][0]
        out.append(Violation(PROP, f'build-outcome/{kind}/{ev["exc"][0]}', {
            'A': diff[0], 'B': diff[1], 'message': msg,
            'element_A': scn['elements'][diff[0][1]]
            if diff[0][0] == 'construct' else None,
            'element_B': b['elements'][diff[0][1]]
            if diff[0][0] == 'construct' else None}))
        return H, out, st
    if not (v.ok and vb.ok):
        return H, out, st
    # -- operations: same success/failure
    def outcomes(hist, sc):
        # an export with an injected I/O fault at a byte offset may or may
        # not reach the fault depending on the printed digits: not compared
        return [(r['op'], None if r['exc'] is None else r['exc'][0])
                for r in hist['ops']
                if not sc['schedule'][r['i']].get('fault')]
    ra, rb = outcomes(H, scn), outcomes(HB, b)
    first_div = None
    if ra != rb:
        i = next(i for i, (x, y) in enumerate(zip(ra + [None], rb + [None]))
                 if x != y)
        first_div = ('op-outcome', i, ra[i] if i < len(ra) else None,
                     rb[i] if i < len(rb) else None)
    # -- histories
    if len(v.epochs) != len(vb.epochs) and first_div is None:
        first_div = ('epochs', None, len(v.epochs), len(vb.epochs))
    for ea, eb in zip(v.epochs, vb.epochs):
        if ea['dump'] is None or eb['dump'] is None:
            continue
        if not (v.finite_epoch(ea) and vb.finite_epoch(eb)):
            st['discarded_nonfinite'] += 1
            return H, out, st
        d = c12.compare(v, ea, vb, eb, 1e-8, st)
        st['instants'] += v.n_valid(ea)
        if d is not None and d['what'] == 'length':
            d = None
        # first run segment that ends at different instants in A and B (an
        # early stop that fires in one execution only)
        seg = None
        for sa, sb in zip(ea['segments'], eb['segments']):
            if sa['i1'] != sb['i1']:
                seg = (sa, sb, min(sa['i1'], sb['i1']) - 1)
                break
        # whichever comes first decides where to look for an explanation
        if seg is not None and (d is None or seg[2] <= d['k']):
            sa, sb, kk = seg
            # `dt >= T` is itself a comparison with gearpy's absolute band
            # (1e-12 in the unit of dt: 3.6 ns when dt is given in hours)
            if any(x['exc'] is not None and 'greater or equal' in x['exc'][1]
                   for x in (sa, sb)) and \
                    abs(sa['T'] - sa['dt']) <= 1e-12 * 3600.0 * 1.01:
                st['threshold_fragile'] += 1
                return H, out, st
            if c12.fragile([(v, ea), (vb, eb)], max(kk, 0)):
                st['threshold_fragile'] += 1
                return H, out, st
            if c12.amplifies_rounding(scn, execu, 1e-8):
                st['discarded_unstable'] += 1
                return H, out, st
            out.append(Violation(PROP, 'history/segment-length', {
                'epoch': ea['index'], 'A_ends_at': sa['i1'],
                'B_ends_at': sb['i1'], 'stop': sa['stop']}))
            return H, out, st
        if d is not None:
            why = c12.fragile([(v, ea), (vb, eb)], d['k'])
            if why:
                st['threshold_fragile'] += 1
                return H, out, st
            if c12.amplifies_rounding(scn, execu, 1e-8):
                st['discarded_unstable'] += 1
                return H, out, st
            out.append(Violation(PROP, f"history/{d['what']}", dict(
                d, epoch=ea['index'])))
            return H, out, st
    if first_div is not None:
        # a differing op outcome without any divergence of the histories:
        # explained if a discrete decision of the last common instants is
        # within rounding of its threshold (stop threshold, rule window...)
        for ea, eb in zip(v.epochs, vb.epochs):
            if ea['dump'] is None or eb['dump'] is None:
                continue
            kk = min(v.n_valid(ea), vb.n_valid(eb)) - 1
            if c12.fragile([(v, ea), (vb, eb)], max(kk, 0)):
                st['threshold_fragile'] += 1
                return H, out, st
        if c12.amplifies_rounding(scn, execu, 1e-8):
            st['discarded_unstable'] += 1
            return H, out, st
        out.append(Violation(PROP, f'{first_div[0]}', {
            'index': first_div[1], 'A': first_div[2], 'B': first_div[3]}))
        return H, out, st
    # -- snapshots (same output units in A and B); tolerance from the scale
    #    of the recorded series, not of the (possibly cancelling) value
    last_ep = [e for e in v.epochs if e['dump'] is not None]
    sc_si = c12.scales(v, last_ep[-1]) if last_ep else {}
    names = [scn['elements'][c]['name'] for c in v.chain]
    for rx, ry in zip(H['ops'], HB['ops']):
        if rx['op'] == 'snapshot' and rx.get('df') and ry.get('df'):
            st['snapshots_compared'] += 1
            kw = scn['schedule'][rx['i']].get('units', {})
            from .c18 import unit_of
            for name, row in rx['df']['rows'].items():
                p = names.index(name) if name in names else None
                for c, xa in row.items():
                    xb = ry['df']['rows'].get(name, {}).get(c)
                    var = c.split(' (')[0]
                    sc = sc_si.get((p, var), 0.0)
                    if var != 'pwm' and si.VAR_KIND.get(var):
                        sc = sc / si.factor(si.VAR_KIND[var], unit_of(var, kw))
                    if var == 'contact stress' and xa is not None and \
                            xb is not None:
                        # sqrt of a force: compare squares (see c12.compare)
                        m2 = max(sc, abs(xa), abs(xb)) ** 2
                        if abs(xa * xa - xb * xb) <= 1e-8 * m2:
                            continue
                        # ... and an interpolated value mixes a neighbouring
                        # sample linearly: if that sample is the square root
                        # of a rounding residual of the force (relative
                        # 1e-15 of its scale -> 3e-8 of the stress scale),
                        # the snapshot inherits it undiminished
                        if abs(xa - xb) <= 3e-7 * max(sc, abs(xa), abs(xb)):
                            continue
                    if (xa is None) != (xb is None) or (
                            xa is not None and
                            abs(xa - xb) > 1e-8 * max(sc, abs(xa), abs(xb)) + 1e-300):
                        out.append(Violation(PROP, f'snapshot/{var}', {
                            'element': name, 'column': c, 'A': xa, 'B': xb,
                            'scale': sc}))
                        return H, out, st
    return H, out, st


def check(scn, H, view=None):
    raise NotImplementedError('C07 is a differential: use run()')


def pattern(scn, H, st):
    return tuple(sorted(k for k in st if k.startswith('unit_')))[:40]
