"""Structure-aware minimisation of a failing scenario.

Greedy delta debugging on the scenario document while a violation with the
same signature persists.  Every candidate is executed on the real code.
"""
import copy
import time

from . import refmodel as rm


def _runs(scn):
    return [i for i, op in enumerate(scn.get('schedule', []))
            if op['op'] == 'run']


def candidates(scn):
    """Yield (description, candidate scenario), simplest/biggest cuts first."""
    sched = scn.get('schedule', [])
    # 1. truncate / drop schedule operations
    for cut in range(1, len(sched)):
        c = copy.deepcopy(scn)
        c['schedule'] = sched[:cut]
        yield f'truncate schedule to {cut}', c
    for i in range(len(sched)):
        if len(sched) > 1:
            c = copy.deepcopy(scn)
            del c['schedule'][i]
            yield f'drop op {i}', c
    # 2. fewer steps
    for i in _runs(scn):
        op = sched[i]
        for n in sorted({2, 3, op['n'] // 4, op['n'] // 2, op['n'] - 1}):
            if 2 <= n < op['n']:
                c = copy.deepcopy(scn)
                o = c['schedule'][i]
                if o.get('T_mode') != 'product' and 'T' in o:
                    o['T'] = [o['T'][0] * n / o['n'], o['T'][1]]
                o['n'] = n
                yield f'op {i}: n={n}', c
    # 3. drop control / stops / faults
    if scn.get('rules'):
        c = copy.deepcopy(scn)
        c['rules'] = []
        for o in c['schedule']:
            if o['op'] == 'run':
                o['control'] = False
        yield 'drop all rules', c
        for j in range(len(scn['rules'])):
            if len(scn['rules']) > 1:
                c = copy.deepcopy(scn)
                del c['rules'][j]
                yield f'drop rule {j}', c
        for j, rule in enumerate(scn['rules']):
            if rule['kind'] == 'Scripted' and len(rule['table']) > 1:
                keys = sorted(rule['table'], key=int)
                for part in (keys[:len(keys) // 2], keys[len(keys) // 2:]):
                    c = copy.deepcopy(scn)
                    c['rules'][j]['table'] = {k: rule['table'][k]
                                              for k in part}
                    yield f'rule {j}: halve table', c
    if scn.get('stops'):
        c = copy.deepcopy(scn)
        c['stops'] = []
        for o in c['schedule']:
            if o['op'] == 'run':
                o['stop'] = None
        yield 'drop stops', c
    for i, op in enumerate(sched):
        if op.get('fault'):
            c = copy.deepcopy(scn)
            c['schedule'][i]['fault'] = None
            yield f'op {i}: drop io fault', c
        if op['op'] == 'run' and op.get('solver') == 'new':
            c = copy.deepcopy(scn)
            c['schedule'][i]['solver'] = 'same'
            yield f'op {i}: same solver', c
    # 4. simpler load
    load = scn.get('load')
    if load and len(load['terms']) > 1:
        for j in range(len(load['terms'])):
            c = copy.deepcopy(scn)
            del c['load']['terms'][j]
            yield f'drop load term {j}', c
    if load and any(t['t'] != 'const' for t in load['terms']):
        c = copy.deepcopy(scn)
        c['load']['terms'] = [{'t': 'const', 'c': 0.0}]
        yield 'zero load', c
    # 5. shorter chain
    yield from chain_cuts(scn)
    # 6. initial conditions
    init = scn.get('init')
    if init:
        if init['position'][0] != 0:
            c = copy.deepcopy(scn)
            c['init']['position'] = [0.0, init['position'][1]]
            yield 'zero initial position', c
        if init['speed'][0] != 0:
            c = copy.deepcopy(scn)
            c['init']['speed'] = [0.0, init['speed'][1]]
            yield 'zero initial speed', c
        if init.get('pwm') is not None:
            c = copy.deepcopy(scn)
            c['init']['pwm'] = None
            yield 'default pwm', c
    # 7. simpler numbers
    yield from simplify_numbers(scn)
    # 8. drop optional gear data
    for i, e in enumerate(scn['elements']):
        for p in ('E', 'b', 'm', 'd'):
            if e.get(p) is not None:
                c = copy.deepcopy(scn)
                c['elements'][i][p] = None
                if p == 'm':
                    c['elements'][i]['b'] = None if 'b' in e else None
                    if 'E' in e:
                        c['elements'][i]['E'] = None
                if p == 'b' and 'E' in e:
                    c['elements'][i]['E'] = None
                yield f'element {i}: drop {p}', c


def _quantity_sites(scn):
    """(container, key, kind) of every [value, unit] quantity of a scenario."""
    from . import refmodel as rm
    sites = []
    for e in scn.get('elements', []):
        for p, kind in rm.PARAM_KIND.items():
            if e.get(p) is not None:
                sites.append((e, p, kind))
    init = scn.get('init')
    if init:
        sites.append((init, 'position', 'AngularPosition'))
        sites.append((init, 'speed', 'AngularSpeed'))
    for op in scn.get('schedule', []):
        if op['op'] == 'run':
            sites.append((op, 'dt', 'TimeInterval'))
            if op.get('T') is not None:
                sites.append((op, 'T', 'TimeInterval'))
        elif op['op'] == 'set_state':
            if op.get('position') is not None:
                sites.append((op, 'position', 'AngularPosition'))
            if op.get('speed') is not None:
                sites.append((op, 'speed', 'AngularSpeed'))
    for rule in scn.get('rules', []) or []:
        for key, kind in (('start', 'Time'), ('duration', 'TimeInterval'),
                          ('target', 'AngularPosition'), ('brake', 'Angle'),
                          ('limit', 'Current')):
            if key in rule:
                sites.append((rule, key, kind))
    for ss in scn.get('stops', []) or []:
        if ss.get('wrong_kind'):
            continue
        sites.append((ss, 'thr', {'encoder': 'AngularPosition',
                                  'tachometer': 'AngularSpeed',
                                  'amperometer': 'Current'}[ss['sensor']]))
    return sites


def simplify_numbers(scn):
    """Whole-scenario simplifications: SI units everywhere, then magnitudes
    rounded to three significant digits."""
    from . import si
    # 1. every quantity in the SI unit of its kind
    c = copy.deepcopy(scn)
    changed = False
    for box, key, kind in _quantity_sites(c):
        q = box[key]
        u = si.SI_UNIT[kind]
        if q[1] != u:
            box[key] = [q[0] * si.factor(kind, q[1]), u]
            changed = True
    if c.get('load') and c['load'].get('unit') != 'Nm':
        c['load']['unit'] = 'Nm'
        changed = True
    if changed:
        yield 'all quantities in SI units', c
    # 2. rounded magnitudes (mated gears keep equal values: same literal)
    c = copy.deepcopy(scn)
    changed = False
    for box, key, kind in _quantity_sites(c):
        q = box[key]
        if isinstance(q[0], float) and q[0] != 0:
            r = float(f'{q[0]:.3g}')
            if r != q[0] and r != 0:
                box[key] = [r, q[1]]
                changed = True
    for op in c.get('schedule', []):
        if op['op'] == 'run' and op.get('T') is not None:
            op['T_mode'] = 'product'
            op.pop('T', None)
    for t in (c.get('load') or {}).get('terms', []):
        for k2, v2 in list(t.items()):
            if isinstance(v2, float) and v2 != 0:
                t[k2] = float(f'{v2:.3g}')
    if changed:
        yield 'magnitudes rounded to 3 significant digits', c


def chain_cuts(scn):
    """Remove chain positions i..j whose boundary relations are joints."""
    els = scn['elements']
    decls = scn['decls']
    if scn.get('track_relations') or not scn.get('assemble', True):
        return
    # chain by simple walk over the declarations (valid chains only)
    drives = {}
    how = {}
    for d in decls:
        drives[d['m']] = d['s']
        how[d['s']] = d
    chain = [scn.get('motor', 0)]
    while chain[-1] in drives and len(chain) <= len(els):
        chain.append(drives[chain[-1]])
    if len(chain) != len(els) or len(decls) != len(els) - 1:
        return
    N = len(chain)
    for length in range(N - 2, 0, -1):
        for a in range(1, N - length + 1):
            b = a + length - 1            # remove positions a..b
            if how[chain[a]]['op'] != 'joint':
                continue
            last_removed = b == N - 1
            if not last_removed and how[chain[b + 1]]['op'] != 'joint':
                continue
            keep = [p for p in range(N) if p < a or p > b]
            if len(keep) < 2:
                continue
            if els[chain[keep[-1]]]['kind'] not in rm.GEAR_KINDS:
                continue
            c = copy.deepcopy(scn)
            old2new = {chain[p]: n for n, p in enumerate(keep)}
            c['elements'] = [copy.deepcopy(els[chain[p]]) for p in keep]
            nd = []
            for p in keep[1:]:
                d = copy.deepcopy(how[chain[p]])
                if p == b + 1:
                    d = {'op': 'joint', 'm': chain[a - 1], 's': chain[p]}
                d['m'] = old2new[d['m']]
                d['s'] = old2new[d['s']]
                nd.append(d)
            c['decls'] = nd
            c['motor'] = 0
            ok = True
            for rule in c.get('rules', []):
                for key in ('enc', 'tach'):
                    if key in rule:
                        if rule[key] in old2new:
                            rule[key] = old2new[rule[key]]
                        else:
                            ok = False
            for st in c.get('stops', []):
                if st['target'] in old2new:
                    st['target'] = old2new[st['target']]
                else:
                    ok = False
            if c.get('load') and 'on' in c['load']:
                if c['load']['on'] in old2new:
                    c['load']['on'] = old2new[c['load']['on']]
                else:
                    ok = False
            if ok:
                yield f'cut chain positions {a}..{b}', c


def shrink(scn, signature, test, budget_s=60.0, max_exec=400):
    """test(candidate) -> set of violation signatures. Returns (scn, log)."""
    t0 = time.time()
    n_exec = 0
    log = []
    improved = True
    cur = scn
    while improved and time.time() - t0 < budget_s and n_exec < max_exec:
        improved = False
        for desc, cand in candidates(cur):
            if time.time() - t0 > budget_s or n_exec >= max_exec:
                break
            n_exec += 1
            try:
                sigs = test(cand)
            except Exception:      # noqa  a broken candidate is just rejected
                continue
            if signature in sigs:
                cur = cand
                log.append(desc)
                improved = True
                break
    return cur, {'steps': log, 'executions': n_exec,
                 'seconds': round(time.time() - t0, 2)}
