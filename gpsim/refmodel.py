"""Reference model: small, SI floats, no gearpy import.

Everything here is written from gearpy's documentation (docstrings, README)
and from the SI definitions, never by calling gearpy.
"""
from math import pi, sin, cos, tan, atan, sqrt, isfinite
from decimal import Decimal
from . import si

GEAR_KINDS = ('SpurGear', 'HelicalGear', 'WormWheel')     # "GearBase" of docs
ALL_KINDS = ('DCMotor', 'Flywheel', 'SpurGear', 'HelicalGear', 'WormGear',
             'WormWheel')

# --- documented data tables (copies; an edited CSV in the repo is a change
# --- the oracles must notice)
LEWIS_TABLE = [
    (10, 0.201), (11, 0.226), (12, 0.245), (13, 0.264), (14, 0.276),
    (15, 0.289), (16, 0.295), (17, 0.302), (18, 0.308), (19, 0.314),
    (20, 0.320), (21, 0.325), (22, 0.330), (24, 0.337), (26, 0.344),
    (28, 0.352), (30, 0.358), (32, 0.364), (34, 0.370), (36, 0.377),
    (38, 0.383), (40, 0.389), (43, 0.394), (45, 0.399), (50, 0.408),
    (55, 0.415), (60, 0.421), (65, 0.425), (70, 0.429), (75, 0.433),
    (80, 0.436), (90, 0.442), (100, 0.446), (150, 0.458), (200, 0.463),
    (300, 0.471), (400, 0.478), (500, 0.484)]
MIN_TEETH = 10
# pressure angle (deg) -> (maximum helix angle deg, worm wheel Lewis factor)
WORM_TABLE = {14.5: (16.0, 0.1), 20.0: (25.0, 0.125), 25.0: (35.0, 0.15),
              30.0: (45.0, 0.175)}
SPUR_PRESSURE_ANGLE = 20.0 * pi / 180.0


def lewis(z):
    """Linear interpolation in the table, clamped to the end values."""
    if z <= LEWIS_TABLE[0][0]:
        return LEWIS_TABLE[0][1]
    if z >= LEWIS_TABLE[-1][0]:
        return LEWIS_TABLE[-1][1]
    for (x0, y0), (x1, y1) in zip(LEWIS_TABLE, LEWIS_TABLE[1:]):
        if x0 <= z <= x1:
            return y0 + (y1 - y0) * (z - x0) / (x1 - x0)
    raise AssertionError(z)


def worm_row(alpha_si):
    """Row of the worm table for a pressure angle given in rad, or None."""
    deg = alpha_si * 180.0 / pi
    for a, row in WORM_TABLE.items():
        if abs(deg - a) < 1e-9:
            return a, row
    return None


# ---------------------------------------------------------------------------
# element parameters in SI

PARAM_KIND = {
    'J': 'InertiaMoment', 'w0': 'AngularSpeed', 'Tmax': 'Torque',
    'i0': 'Current', 'imax': 'Current', 'm': 'Length', 'b': 'Length',
    'E': 'Stress', 'beta': 'Angle', 'alpha': 'Angle', 'd': 'Length',
}


def elem_si(e):
    """SI view of an element spec of a scenario."""
    out = {'kind': e['kind'], 'name': e['name']}
    for p, kind in PARAM_KIND.items():
        if p in e:
            out[p] = None if e[p] is None else si.q_si(kind, e[p])
    for p in ('z', 'starts'):
        if p in e:
            out[p] = e[p]
    return out


# ---------------------------------------------------------------------------
# declaration model (C10, C20 and the source of ratios/efficiencies elsewhere)

class DeclModel:
    """Tracks what the declared relations must have produced."""

    def __init__(self, elems_si):
        self.e = elems_si
        n = len(elems_si)
        self.drives = [None] * n
        self.driven_by = [None] * n
        self.role = [None] * n            # 'MatingMaster' / 'MatingSlave'
        self.ratio = [None] * n
        self.eff = [None if e['kind'] == 'DCMotor' else 1 for e in elems_si]
        self.self_locking = [None] * n    # WormGear only
        self.mate = [None] * n            # partner of the last mating
        self.via = [None] * n             # how element i is driven: joint/gear/worm
        self.fragile = False              # a decision was within rounding

    # -- verdict for one declaration: ('accept', None) | ('reject', excname)
    #    | ('undecided', None)
    def judge(self, d):
        e = self.e
        m, s = d['m'], d['s']
        km, ks = e[m]['kind'], e[s]['kind']
        op = d['op']
        if op == 'joint':
            if ks == 'DCMotor':
                return ('reject', 'TypeError')
            if m == s:
                return ('reject', 'ValueError')
            return ('accept', None)
        if op == 'gear':
            if km not in GEAR_KINDS or ks not in GEAR_KINDS:
                return ('reject', 'TypeError')
            if m == s:
                return ('reject', 'ValueError')
            x = d['eff']
            if isinstance(x, bool) or not isinstance(x, (int, float)):
                return ('reject', 'TypeError')
            if x > 1 or x < 0:
                return ('reject', 'ValueError')
            mm, ms = e[m].get('m'), e[s].get('m')
            if mm is not None and ms is not None:
                v = _same(mm, ms)
                if v is None:
                    return ('undecided', None)
                if not v:
                    return ('reject', 'ValueError')
            hm, hs = km == 'HelicalGear', ks == 'HelicalGear'
            if 'WormWheel' in (km, ks):
                # the documentation does not say what a worm wheel in a plain
                # gear mating means
                return ('undecided', None)
            if hm != hs:
                return ('reject', 'ValueError')
            if hm and hs:
                v = _same(e[m]['beta'], e[s]['beta'])
                if v is None:
                    return ('undecided', None)
                if not v:
                    return ('reject', 'ValueError')
            return ('accept', None)
        if op == 'worm':
            ww = ('WormGear', 'WormWheel')
            if km not in ww or ks not in ww or km == ks:
                return ('reject', 'TypeError')
            f = d['f']
            if isinstance(f, bool) or not isinstance(f, (int, float)):
                return ('reject', 'TypeError')
            if f > 1 or f < 0:
                return ('reject', 'ValueError')
            v = _same(e[m]['alpha'], e[s]['alpha'])
            if v is None:
                return ('undecided', None)
            if not v:
                return ('reject', 'ValueError')
            eta = self.worm_efficiency(d)
            if eta is None:
                return ('undecided', None)
            lo, hi = -1e-9, 1 + 1e-9
            if eta < lo or eta > hi:
                return ('reject', 'ValueError')
            if (eta < 1e-9 or eta > 1 - 1e-9) and d['f'] != 0:
                # (with zero friction the efficiency is exactly 1)
                return ('undecided', None)
            return ('accept', None)
        raise AssertionError(op)

    def worm_efficiency(self, d):
        e = self.e
        m = d['m']
        f = d['f']
        alpha = e[m]['alpha']
        beta = e[m]['beta']
        tb = tan(beta)
        if tb == 0:
            return None
        if e[m]['kind'] == 'WormGear':
            return (cos(alpha) - f * tb) / (cos(alpha) + f / tb)
        return (cos(alpha) - f / tb) / (cos(alpha) + f * tb)

    def worm_self_locking(self, d):
        """(value, margin): f > cos(alpha)*tan(beta) of the worm gear."""
        e = self.e
        w = d['m'] if e[d['m']]['kind'] == 'WormGear' else d['s']
        thr = cos(e[w]['alpha']) * tan(e[w]['beta'])
        return d['f'] > thr, d['f'] - thr

    def apply(self, d):
        """Apply an accepted declaration."""
        m, s = d['m'], d['s']
        e = self.e
        self.drives[m] = s
        self.driven_by[s] = m
        if d['op'] == 'joint':
            self.ratio[s] = 1.0
            self.eff[s] = 1           # "transfers the whole driving torque"
            self.via[s] = 'joint'
            return
        self.role[m] = 'MatingMaster'
        self.role[s] = 'MatingSlave'
        self.mate[m] = s
        self.mate[s] = m
        if d['op'] == 'gear':
            self.ratio[s] = e[s]['z'] / e[m]['z']
            self.eff[s] = d['eff']
            self.via[s] = 'gear'
            return
        if e[m]['kind'] == 'WormGear':
            self.ratio[s] = e[s]['z'] / e[m]['starts']
            w = m
        else:
            self.ratio[s] = e[s]['starts'] / e[m]['z']
            w = s
        self.eff[s] = self.worm_efficiency(d)
        sl, margin = self.worm_self_locking(d)
        self.self_locking[w] = sl
        if abs(margin) < 1e-9:
            self.fragile = True
        self.via[s] = 'worm'

    # -- chain reachable from the motor (C20); None if a cycle is met
    def chain(self, motor=0, limit=64):
        out = [motor]
        seen = {motor}
        while self.drives[out[-1]] is not None:
            nxt = self.drives[out[-1]]
            if nxt in seen or len(out) > limit:
                return None
            out.append(nxt)
            seen.add(nxt)
        return out

    def chain_self_locking(self, chain):
        return any(self.e[i]['kind'] == 'WormGear' and
                   self.self_locking[i] is True for i in chain)


def _same(a, b, rel=1e-9):
    """True / False, or None when the two magnitudes differ by rounding only
    in a way that gearpy's own tolerance may see either way."""
    if a == b:
        return True
    scale = max(abs(a), abs(b))
    d = abs(a - b)
    if d <= 1e-15 * scale:
        return True
    if d <= rel * scale + 1e-11:
        return None
    return False


# ---------------------------------------------------------------------------
# chain quantities

def chain_ratios(model, chain):
    """r[i], eta[i] of chain position i >= 1 with respect to its driver."""
    r = [None] + [model.ratio[c] for c in chain[1:]]
    eta = [None] + [model.eff[c] for c in chain[1:]]
    return r, eta


def equivalent_inertia(model, chain):
    """Documented reduction: J <- J_motor; then J <- J*r_i + J_i."""
    J = model.e[chain[0]]['J']
    for c in chain[1:]:
        J = J * model.ratio[c] + model.e[c]['J']
    return J


def rate_constant(model, chain, D=1.0):
    """k and total ratio/efficiency of the linear drive (C04, generator)."""
    mot = model.e[chain[0]]
    R = 1.0
    E = 1.0
    for c in chain[1:]:
        R *= model.ratio[c]
        E *= model.eff[c]
    J = equivalent_inertia(model, chain)
    return mot['Tmax'] * E * R * R / (mot['w0'] * J), R, E, J


# ---------------------------------------------------------------------------
# DC motor laws (documented)

def motor_dlim(mot):
    if mot.get('i0') is None or mot.get('imax') is None:
        return None
    return mot['i0'] / mot['imax']


def motor_torque(mot, w, D):
    """Driving torque at speed w (rad/s) and duty cycle D."""
    Tmax, w0 = mot['Tmax'], mot['w0']
    dlim = motor_dlim(mot)
    if dlim is None:
        return Tmax * (1.0 - w / w0)
    i0, imax = mot['i0'], mot['imax']
    if abs(D) <= dlim:
        return 0.0
    if D > 0:
        TD = Tmax * (D * imax - i0) / (imax - i0)
    else:
        TD = Tmax * (D * imax + i0) / (imax - i0)
    return TD * (1.0 - w / (D * w0))


def motor_current(mot, w, D):
    i0, imax = mot['i0'], mot['imax']
    dlim = i0 / imax
    if abs(D) <= dlim:
        return D * imax
    if D > 0:
        return (D * imax - i0) * (1.0 - w / (D * mot['w0'])) + i0
    return (D * imax + i0) * (1.0 - w / (D * mot['w0'])) - i0


def motor_scales(mot, w, D):
    """Operand scale of the torque/current expressions (for tolerances)."""
    s = abs(w) / mot['w0']
    d = max(abs(D), 1e-3)
    ts = mot['Tmax'] * (1.0 + s / d)
    cs = None
    if mot.get('imax') is not None:
        cs = mot['imax'] * (1.0 + s / d)
    return ts, cs


# ---------------------------------------------------------------------------
# lock automaton (DESIGN 4.2)

def lock_engage(D_in, w_adv):
    return D_in == 0 or (D_in > 0 and w_adv < 0) or (D_in < 0 and w_adv > 0)


def lock_release(T_prev, D_in):
    return (T_prev > 0 and D_in > 0) or (T_prev < 0 and D_in < 0)


# ---------------------------------------------------------------------------
# gear stresses (documented formulas)

def helical_geometry(beta):
    at = atan(tan(SPUR_PRESSURE_ANGLE) / cos(beta))
    bb = atan(cos(at) * tan(beta))
    return at, bb


def gear_lewis(e):
    if e['kind'] == 'SpurGear':
        return lewis(e['z'])
    if e['kind'] == 'HelicalGear':
        at, bb = helical_geometry(e['beta'])
        zv = e['z'] / (cos(bb) ** 2) / cos(e['beta'])
        return lewis(zv)
    if e['kind'] == 'WormWheel':
        row = worm_row(e['alpha'])
        return None if row is None else row[1][1]
    return None


def tangential_force(e, T_ref):
    if e['kind'] == 'WormGear':
        return None
    return abs(T_ref) / (e['z'] * e['m'] / 2.0)


def bending_stress(e, Ft, mate=None):
    Y = gear_lewis(e)
    if e['kind'] in ('SpurGear', 'HelicalGear'):
        return Ft / (e['m'] * e['b'] * Y)
    dw = mate['d']
    pn = pi * dw * sin(mate['beta']) / e['z']
    beff = min(e['b'], 0.67 * dw)
    return Ft / (pn * beff * Y)


def contact_stress(e, Ft, mate):
    d1 = e['z'] * e['m']
    d2 = mate['z'] * mate['m']
    E1, E2 = e['E'], mate['E']
    if e['kind'] == 'SpurGear':
        a = SPUR_PRESSURE_ANGLE
        F = Ft
    else:
        a, _ = helical_geometry(e['beta'])
        F = Ft * cos(e['beta'])
    return 0.262922 * sqrt(4.0 * F / (e['b'] * cos(a) * sin(a)) *
                           (1.0 / d1 + 1.0 / d2) * E1 * E2 / (E1 + E2))


def flags(e, mate=None, mated=False):
    """(force, bending, contact) 'is computable' by own data; for a mated
    worm wheel's bending stress also the worm's reference diameter."""
    k = e['kind']
    if k == 'WormGear':
        return (e.get('d') is not None, None, None)
    if k not in GEAR_KINDS:
        return (None, None, None)
    f = e.get('m') is not None
    b = f and e.get('b') is not None
    c = b and e.get('E') is not None
    if k == 'WormWheel':
        c = False
        if mated and mate is not None and mate['kind'] == 'WormGear':
            b = b and mate.get('d') is not None
    return (f, b, c)


# ---------------------------------------------------------------------------
# exact decimal time grid (C11)

def dec(x):
    """Decimal of the shortest repr of a float/int literal."""
    return Decimal(repr(x)) if isinstance(x, float) else Decimal(x)


TIME_DEC = {'sec': Decimal(1), 'min': Decimal(60), 'hour': Decimal(3600),
            'ms': Decimal(1) / Decimal(1000)}


# ---------------------------------------------------------------------------
# control rules (documented)

def arbitration(proposals):
    """('pwm', value) | ('error', None)."""
    app = [p for p in proposals if p is not None]
    if len(app) >= 2:
        return ('error', None)
    if len(app) == 1:
        return ('pwm', min(max(app[0], -1), 1))
    return ('pwm', 1)


def start_limit_current_value(mot, w_tacho, i_lim):
    s = w_tacho / mot['w0']
    e = i_lim / mot['imax']
    disc = s * s + e * e + 2.0 * s * (i_lim - 2.0 * mot['i0']) / mot['imax']
    if disc < 0:
        return None
    return 0.5 * (s + e + sqrt(disc))


def closed_form(a, k, w_init, t):
    """omega(t), theta(t)-theta0 of  dw/dt = a - k w."""
    from math import exp
    winf = a / k
    ex = exp(-k * t)
    return (winf + (w_init - winf) * ex,
            winf * t + (w_init - winf) * (1.0 - ex) / k)


def finite(*xs):
    return all(x is not None and isfinite(x) for x in xs)
