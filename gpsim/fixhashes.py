"""Refresh the commit hashes of the 'fixed' entries of known_findings.json
from /repo's git log (matched by a keyword of the commit subject)."""
import json
import os
import re
import subprocess

ROOT = os.path.dirname(os.path.dirname(os.path.abspath(__file__)))


def main():
    p = os.path.join(ROOT, 'known_findings.json')
    d = json.load(open(p))
    log = subprocess.run(['git', '-C', '/repo', 'log', '--format=%h %s'],
                         capture_output=True, text=True).stdout.splitlines()
    for f in d['findings']:
        if f.get('status') != 'fixed':
            continue
        key = f.get('subject_key')
        if not key:
            continue
        hit = [ln.split()[0] for ln in log if key in ln and ln.split()[1] == 'fix:']
        if len(hit) != 1:
            raise SystemExit(f'{key!r}: {len(hit)} matches')
        old = f['commit']
        f['commit'] = hit[0]
        f['line'] = re.sub(r'(fixed: property=C\d+ )\S+', r'\g<1>' + hit[0], f['line'])
    json.dump(d, open(p, 'w'), indent=1)
    print('ok')


if __name__ == '__main__':
    main()
