"""Unit tables of the simulator, written from the SI definitions.

Deliberately independent of gearpy/units/units.py: every factor is derived
here from the definition of the unit (1 rpm = 2*pi/60 rad/s, 1 kgf = 9.80665 N,
1 g cm^2 = 1e-3 kg * (1e-2 m)^2, ...), so that a wrong factor in gearpy shows
up as a mismatch instead of cancelling out.
"""
from math import pi

G0 = 9.80665          # standard gravity, m/s^2 (definition of kgf)

_ANG = {'rad': 1.0, 'deg': pi / 180.0, 'arcmin': pi / 180.0 / 60.0,
        'arcsec': pi / 180.0 / 3600.0, 'rot': 2.0 * pi}
_TIME = {'sec': 1.0, 'min': 60.0, 'hour': 3600.0, 'ms': 1e-3}
_LEN = {'m': 1.0, 'dm': 0.1, 'cm': 0.01, 'mm': 0.001}


def _speed():
    out = {}
    for a, fa in (('rad', 1.0), ('deg', pi / 180.0)):
        for t, ft in (('s', 1.0), ('min', 60.0), ('h', 3600.0)):
            out[f'{a}/{t}'] = fa / ft
    out['rps'] = 2.0 * pi
    out['rpm'] = 2.0 * pi / 60.0
    out['rph'] = 2.0 * pi / 3600.0
    return out


def _inertia():
    out = {}
    for m, fm in (('kg', 1.0), ('g', 1e-3)):
        for l, fl in _LEN.items():
            out[f'{m}{l}^2'] = fm * fl * fl
    return out


_FORCE = {'N': 1.0, 'mN': 1e-3, 'kN': 1e3, 'kgf': G0, 'gf': G0 * 1e-3}


def _torque():
    out = {'Nm': 1.0}
    for f in ('mN', 'kN', 'kgf', 'gf'):
        for l, fl in _LEN.items():
            out[f'{f}{l}'] = _FORCE[f] * fl
    return out


UNITS = {
    'AngularPosition': dict(_ANG),
    'Angle': dict(_ANG),
    'AngularSpeed': _speed(),
    'AngularAcceleration': {'rad/s^2': 1.0, 'deg/s^2': pi / 180.0,
                            'rot/s^2': 2.0 * pi},
    'InertiaMoment': _inertia(),
    'Torque': _torque(),
    'Time': dict(_TIME),
    'TimeInterval': dict(_TIME),
    'Length': dict(_LEN),
    'Surface': {f'{l}^2': f * f for l, f in _LEN.items()},
    'Force': dict(_FORCE),
    'Stress': {'Pa': 1.0, 'kPa': 1e3, 'MPa': 1e6, 'GPa': 1e9},
    'Current': {'A': 1.0, 'mA': 1e-3, 'uA': 1e-6},
}

SI_UNIT = {k: next(u for u, f in t.items() if f == 1.0)
           for k, t in UNITS.items()}

# time variable -> quantity kind
VAR_KIND = {
    'angular position': 'AngularPosition',
    'angular speed': 'AngularSpeed',
    'angular acceleration': 'AngularAcceleration',
    'torque': 'Torque',
    'driving torque': 'Torque',
    'load torque': 'Torque',
    'tangential force': 'Force',
    'bending stress': 'Stress',
    'contact stress': 'Stress',
    'electric current': 'Current',
    'pwm': None,
}
VAR_ORDER = list(VAR_KIND)


def factor(kind, unit):
    return UNITS[kind][unit]


def to_si(kind, value, unit):
    return value * UNITS[kind][unit]


def from_si(kind, si_value, unit):
    return si_value / UNITS[kind][unit]


def q_si(kind, q):
    """SI magnitude of a scenario quantity [value, unit]."""
    return q[0] * UNITS[kind][q[1]]


def units_of(kind):
    return list(UNITS[kind])


def obj_si(obj):
    """SI magnitude of a gearpy quantity object, by the simulator's tables."""
    return obj.value * UNITS[type(obj).__name__][obj.unit]
