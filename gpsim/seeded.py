"""Evaluate a seeded change (written by an independent sub-agent).

  python -m gpsim.seeded eval <dir-with-patch.diff-and-demo.py> [--props C01,C02 | --all]
  python -m gpsim.seeded tests <dir>        # full baseline suite on the patched copy

A scratch copy of /repo (tracked files only) is made under /tmp, the patch is
applied with `git apply`, demo.py is run against the patched copy (expected
exit 1) and against /repo (expected exit 0), then the selected quick checks
are run against the copy (GEARPY_SRC / PYTHONPATH).  The copy is removed.
"""
import argparse
import json
import os
import shutil
import subprocess
import sys
import tempfile
import time

ROOT = os.path.dirname(os.path.dirname(os.path.abspath(__file__)))
PY = sys.executable


def make_copy(patch):
    scratch = tempfile.mkdtemp(prefix='gpseed_', dir='/tmp')
    # a patch written against an earlier commit of /repo (before a later
    # `fix:` touched the same lines) names that commit in base.txt
    base = 'HEAD'
    bp = os.path.join(os.path.dirname(os.path.abspath(patch)), 'base.txt')
    if os.path.exists(bp):
        base = open(bp).read().strip()
    subprocess.run(f'git -C /repo archive {base} | tar -x -C {scratch}',
                   shell=True, check=True)
    subprocess.run(['git', 'init', '-q'], cwd=scratch, check=True)
    p = subprocess.run(['git', 'apply', os.path.abspath(patch)], cwd=scratch,
                       capture_output=True, text=True)
    if p.returncode != 0:
        shutil.rmtree(scratch, ignore_errors=True)
        raise RuntimeError('patch does not apply: ' + p.stderr[-500:])
    return scratch


def run_demo(demo, src):
    env = dict(os.environ)
    env['PYTHONPATH'] = src
    p = subprocess.run([PY, os.path.abspath(demo)], cwd=src, env=env,
                       capture_output=True, text=True, timeout=600)
    return p.returncode, (p.stdout + p.stderr)[-800:]


def run_check(prop, src, n=None, tier='quick'):
    env = dict(os.environ)
    env['PYTHONPATH'] = src + os.pathsep + ROOT
    env['GEARPY_SRC'] = src
    env['GPSIM_SHRINK_S'] = '15'
    env['GPSIM_MAX_REPLAYS'] = '8'
    env['GPSIM_OUT'] = os.path.join(src, '_gpsim_out')
    cmd = [PY, '-m', 'gpsim.check', prop, '--tier', tier, '--no-evidence']
    if n:
        cmd += ['--n', str(n)]
    t0 = time.time()
    p = subprocess.run(cmd, cwd=ROOT, env=env, capture_output=True, text=True,
                       timeout=3600)
    sigs = []
    for ln in p.stdout.splitlines():
        if ln.startswith('VIOLATION'):
            try:
                with open(ln.split('replay=')[1]) as f:
                    d = json.load(f)
                sigs.append({'signature': d['signature'], 'seed': d['seed'],
                             'profile': d['profile'],
                             'minimised_size': d['minimised_size'],
                             'violation': d['violation']})
            except Exception:      # noqa
                pass
    return {'property': prop, 'exit': p.returncode, 'signatures': sigs,
            'seconds': round(time.time() - t0, 1),
            'summary': p.stdout.splitlines()[0] if p.stdout else '',
            'tail': (p.stdout + p.stderr)[-500:] if p.returncode == 2 else ''}


def main(argv=None):
    from .props import REG
    ap = argparse.ArgumentParser()
    ap.add_argument('cmd', choices=['eval', 'tests'])
    ap.add_argument('dir')
    ap.add_argument('--props')
    ap.add_argument('--all', action='store_true')
    ap.add_argument('--n', type=int)
    ap.add_argument('--tier', default='quick')
    a = ap.parse_args(argv)
    d = os.path.abspath(a.dir)
    patch = os.path.join(d, 'patch.diff')
    demo = os.path.join(d, 'demo.py')
    src = make_copy(patch)
    try:
        if a.cmd == 'tests':
            env = dict(os.environ)
            env['PYTHONPATH'] = src
            p = subprocess.run(
                [PY, '-m', 'pytest', '-q', '-p', 'no:cacheprovider',
                 '--timeout=900', '--continue-on-collection-errors',
                 f'--junitxml={src}/tests.junit.xml'], cwd=src, env=env,
                capture_output=True, text=True, timeout=5000)
            last = [ln for ln in p.stdout.splitlines() if ln.strip()][-1]
            print(last)
            with open(os.path.join(d, 'tests.txt'), 'w') as f:
                f.write(last + '\n')
            return 0 if p.returncode == 0 else 1
        res = {'demo_patched': None, 'demo_unpatched': None, 'checks': []}
        if os.path.exists(demo):
            res['demo_patched'] = run_demo(demo, src)
            res['demo_unpatched'] = run_demo(demo, '/repo')
            print('demo patched exit', res['demo_patched'][0],
                  '| unpatched exit', res['demo_unpatched'][0])
        props = sorted(REG) if a.all else (a.props or '').split(',')
        for prop in [p for p in props if p]:
            r = run_check(prop, src, a.n, a.tier)
            res['checks'].append(r)
            print(f"{prop}: exit={r['exit']} {r['seconds']}s "
                  f"{[s['signature'] for s in r['signatures']]} {r['tail'][-200:]}",
                  flush=True)
        with open(os.path.join(d, 'evaluation_all.json' if a.all else 'evaluation.json'), 'w') as f:
            json.dump(res, f, indent=1, default=str)
        return 0
    finally:
        shutil.rmtree(src, ignore_errors=True)


if __name__ == '__main__':
    sys.exit(main())
