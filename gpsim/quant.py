"""C19 machinery: straight-line programs of quantity operations and
component constructions with one non-physical parameter (F-BADPARAM)."""
import math
import operator

from . import si

STRICT_POS = ('Length', 'Surface', 'InertiaMoment', 'TimeInterval')
NON_NEG = ('Angle',)
KINDS = list(si.UNITS)

BINOPS = {'add': operator.add, 'sub': operator.sub, 'mul': operator.mul,
          'div': operator.truediv}


def invalid(obj):
    """why a live quantity object is invalid, or None."""
    kind = type(obj).__name__
    v = obj.value
    if isinstance(v, bool) or not isinstance(v, (int, float)):
        return f'value of type {type(v).__name__}'
    if v != v:
        return None          # NaN: outside the finite quantifier
    if kind in STRICT_POS and not v > 0:
        return f'{kind} with value {v!r}'
    if kind in NON_NEG and v < 0:
        return f'{kind} with value {v!r}'
    if obj.unit not in si.UNITS.get(kind, {}):
        return f'{kind} with unit {obj.unit!r}'
    return None


def _wrap(scn):
    """np_inputs: the program's float literals are numpy.float64 values."""
    if not scn.get('np_inputs'):
        return lambda v: v
    import numpy as np
    return lambda v: np.float64(v) if type(v) is float else v


def execute_program(scn):
    import gearpy.units as U
    heap = []
    steps = []
    w = _wrap(scn)
    for i, st in enumerate(scn['program']):
        rec = {'i': i, 'op': st['op'], 'exc': None, 'result': None}
        try:
            op = st['op']
            if op == 'new':
                r = getattr(U, st['kind'])(w(st['v']), st['u'])
            elif op in BINOPS:
                a = heap[st['a']] if 'a' in st else w(st['ka'])
                b = heap[st['b']] if 'b' in st else w(st['kb'])
                rec['operands'] = [type(a).__name__, type(b).__name__]
                r = BINOPS[op](a, b)
            elif op == 'abs':
                r = abs(heap[st['a']])
            elif op == 'neg':
                r = -heap[st['a']]
            elif op == 'to':
                h = heap[st['a']]
                units = si.units_of(type(h).__name__)
                unit = units[st['ui'] % len(units)]
                rec['unit'] = unit
                r = h.to(unit, inplace=st.get('inplace', False))
            else:
                raise AssertionError(op)
            if isinstance(r, U.UnitBase):
                rec['result'] = [type(r).__name__, r.value, r.unit]
                if not any(r is h for h in heap):
                    heap.append(r)
            elif r is None:
                rec['result'] = 'None'
            elif isinstance(r, (int, float)):
                rec['result'] = ['number', float(r)]
            else:
                rec['result'] = ['other', type(r).__name__]
        except Exception as ex:      # noqa
            rec['exc'] = [type(ex).__name__, str(ex)[:200]]
        bad = []
        nonfinite = False
        for j, h in enumerate(heap):
            why = invalid(h)
            if why:
                bad.append([j, why])
            v = h.value
            if isinstance(v, float) and (math.isinf(v) or v != v):
                nonfinite = True
        rec['invalid'] = bad
        rec['nonfinite'] = nonfinite
        rec['heap'] = len(heap)
        steps.append(rec)
    return {'steps': steps, 'build': [], 'ops': [], 'assembled': False,
            'rule_calls': [], 'load_calls': [],
            'final': [[type(h).__name__, h.value, h.unit] for h in heap]}


# ---------------------------------------------------------------------------
# constructors with one non-physical parameter

def bad_constructions(scn):
    """Execute scn['badparams']; each must raise ValueError."""
    import gearpy.units as U
    import gearpy.mechanical_objects as M
    from gearpy.sensors import Timer
    out = []
    for case in scn.get('badparams', []):
        rec = {'what': case['what'], 'exc': None}
        try:
            if scn.get('np_inputs'):
                w = _wrap(scn)
                case = dict(case, params={
                    k: ([w(v[0])] + list(v[1:]) if isinstance(v, list)
                        else w(v)) for k, v in case['params'].items()})
            build_case(case, U, M)
        except Exception as ex:      # noqa
            rec['exc'] = [type(ex).__name__, str(ex)[:200]]
        out.append(rec)
    return out


def build_case(case, U, M):
    k = case['component']
    p = dict(case['params'])

    def q(cls, key):
        return cls(p[key][0], p[key][1])
    J = U.InertiaMoment(1, 'kgm^2')
    if k == 'DCMotor':
        kw = dict(name='m', inertia_moment=J,
                  no_load_speed=q(U.AngularSpeed, 'w0'),
                  maximum_torque=q(U.Torque, 'Tmax'))
        if 'i0' in p:
            kw['no_load_electric_current'] = q(U.Current, 'i0')
        if 'imax' in p:
            kw['maximum_electric_current'] = q(U.Current, 'imax')
        mot = M.DCMotor(**kw)
        if 'pwm' in p:
            mot.pwm = p['pwm']
        return mot
    if k == 'SpurGear':
        return M.SpurGear(name='g', n_teeth=p['z'], inertia_moment=J,
                          module=U.Length(1, 'mm'), face_width=U.Length(5, 'mm'),
                          elastic_modulus=q(U.Stress, 'E') if 'E' in p else None)
    if k == 'HelicalGear':
        if p.get('bare'):
            # without the optional data (module, face width)
            return M.HelicalGear(name='g', n_teeth=p.get('z', 20),
                                 inertia_moment=J,
                                 helix_angle=q(U.Angle, 'beta'))
        return M.HelicalGear(name='g', n_teeth=p.get('z', 20), inertia_moment=J,
                             helix_angle=q(U.Angle, 'beta'),
                             module=U.Length(1, 'mm'),
                             face_width=U.Length(5, 'mm'),
                             elastic_modulus=q(U.Stress, 'E') if 'E' in p else None)
    if k == 'WormGear':
        return M.WormGear(name='w', n_starts=p.get('starts', 1),
                          inertia_moment=J, helix_angle=q(U.Angle, 'beta'),
                          pressure_angle=q(U.Angle, 'alpha'))
    if k == 'WormWheel':
        return M.WormWheel(name='w', n_teeth=p.get('z', 30), inertia_moment=J,
                           helix_angle=q(U.Angle, 'beta'),
                           pressure_angle=q(U.Angle, 'alpha'))
    raise AssertionError(k)
