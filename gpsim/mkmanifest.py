"""Writes MANIFEST.json from the registry (run by hand after editing props)."""
import json
import os
from .props import REG, NOT_APPLICABLE, LEVEL_TEXT, LEVEL_NOTE, TECHNIQUE, DESIGN_REF

ROOT = os.path.dirname(os.path.dirname(os.path.abspath(__file__)))
PY = '/venv/bin/python'


def main():
    checks = []
    for pid in sorted(REG):
        checks.append({
            'property_id': pid,
            'quick_cmd': f'timeout 900 {PY} -m gpsim.check {pid} --tier quick',
            'thorough_cmd': f'timeout 3600 {PY} -m gpsim.check {pid} --tier thorough',
            'evidence_file': f'/verif/evidence/{pid}.json',
            'replay_cmd_template': f'{PY} -m gpsim.check {pid} --replay {{path}}',
            'engine': 'gpsim',
            'level_claimed': {'category': 'exploration',
                              'text': LEVEL_TEXT[pid],
                              'design_ref': DESIGN_REF.get(pid, 'DESIGN.md section 5, ' + pid)},
            'level_note': LEVEL_NOTE.get(pid, LEVEL_NOTE['*']),
            'technique': TECHNIQUE.get(pid, TECHNIQUE['*']),
        })
    na = list(NOT_APPLICABLE)
    have = set(REG) | {x['property_id'] for x in na}
    for i in range(1, 21):
        pid = 'C%02d' % i
        if pid not in have:
            na.append({'property_id': pid, 'reason': 'applicable (see DESIGN.md) but its check is not built yet in this commit; not claimed until it is'})
    doc = {
        'version': 1,
        'setup_cmd': f'{PY} -m gpsim.setup',
        'hooks': {
            'guard': 'GEARPY_VERIF',
            'enable': 'no hook exists in /repo: every seam is public API (load callback, RuleBase / SensorBase subclasses) or a standard-library seam (builtins.open, os.makedirs) patched only around one export call; the guard name is reserved and unused',
            'baseline_off_cmd': 'cd /repo && /venv/bin/python -m pytest -ra -q -p no:cacheprovider --timeout=900 --continue-on-collection-errors',
            'source_commits': [],
            'add_only': True,
        },
        'engines': [{
            'name': 'gpsim', 'path': '/verif/gpsim',
            'serves_properties': sorted(REG),
            'kind_free_text': 'purpose-built deterministic simulator: one seed -> one scenario document (configuration + operation schedule + fault plan) -> one exactly repeatable execution of the real gearpy code through its public API; invariants on the recorded histories against a small SI reference model; seeded swarm search on 16 processes; structure-aware shrinking; replay files',
        }],
        'checks': checks,
        'not_applicable': na,
        'notes': 'exit 0 held / exit 1 VIOLATION / exit 2 harness error or vacuity guard. known_findings.json lists recorded and fixed defects. See DESIGN.md.',
    }
    with open(os.path.join(ROOT, 'MANIFEST.json'), 'w') as f:
        json.dump(doc, f, indent=1)
    print('wrote MANIFEST.json with', len(checks), 'checks')


if __name__ == '__main__':
    main()
