"""Registry: property -> profiles, oracle, budgets, vacuity probes."""

_HIST = ('seeded swarm scenarios (chain 2..12 elements, run/continue/reset '
         'schedules, optional control and stop) executed on the real code; '
         'distinct = hash of (element kinds along the chain, schedule op '
         'sequence, fault kinds that fired, property pattern); ')

REG = {
    'C01': dict(
        oracle='c01', profiles=[('dyn', 3, None), ('lock', 1, None)],
        quick=12000, thorough=120000, thorough_cfg={'steps': (3, 250)},
        vacuity=['pair_instants', 'held_instants', 'continued', 'F_STOP',
                 'F_RESET'],
        rule=_HIST + 'non-trivial = at least one adjacent pair compared at a '
        'recorded instant'),
    'C02': dict(
        oracle='c02', profiles=[('dyn', 3, None), ('lock', 1, None)],
        quick=12000, thorough=120000, thorough_cfg={'steps': (3, 250)},
        vacuity=['instants', 'eta_lt_1_pairs', 'continuations', 'F_RESET',
                 'redeclared_between_runs', 'F_BRANCH',
                 'F_OTHER_POWERTRAIN', 'F_SETPWM', 'F_SETLOAD',
                 'F_UNITSWITCH_LIVE', 'later_phases'],
        rule=_HIST + 'non-trivial = at least one instant with every torque '
        'relation evaluated'),
    'C03': dict(
        oracle='c03', profiles=[('dyn', 3, None), ('lock', 1, None)],
        quick=12000, thorough=120000, thorough_cfg={'steps': (3, 250)},
        vacuity=['instants', 'held_instants', 'continuation_boundaries',
                 'F_RESET'],
        rule=_HIST + 'non-trivial = at least one consecutive instant pair '
        'checked against the update law'),
}

REG['C11'] = dict(
    oracle='c11', profiles=[('grid', 1, {'mixed_time_units': True})],
    quick=20000, thorough=600000,
    vacuity=['segments', 'continued', 'F_UNITSWITCH', 'stopped_early',
             'full_length'],
    rule='decimal steps dt = m*10^-e (m 1..999, e 0..4), n 2..120 (thorough '
    '400), T as dt*n or as the decimal literal, four time units, fresh and '
    'continued runs (same or another unit/dt), optional stop; distinct = '
    '(schedule ops, fired faults, (unit, e, T mode) per run); non-trivial = '
    'at least one run segment judged against the exact decimal grid',
    thorough_cfg={'grid_n_max': 400})

REG['C12'] = dict(
    oracle='c12', profiles=[('sched', 1, {'mixed_time_units': True,
                                          'differential': True})],
    quick=10000, thorough=250000,
    vacuity=['compared_instants', 'pairs_split', 'pairs_rerun',
             'unit_switch_splits', 'rerun_same_solver', 'rerun_new_solver',
             'segment_ended_held', 'epoch_ended_held',
             'rerun_pwm_left_to_reset'],
    rule='differential simulation: (split) the scenario segments vs one run '
    'of the total length, (rerun) the epoch after reset + re-applied initial '
    'conditions vs the first epoch, same or new Solver; distinct = (chain '
    'kinds, schedule ops, fired faults); non-trivial = two histories were '
    'compared instant by instant')

REG['C16'] = dict(
    oracle='c16', profiles=[('stop', 1, None)],
    quick=8000, thorough=200000,
    vacuity=['stop_segments', 'F_STOP_checked', 'never_fired',
             'continued_with_stop', 'op_gt', 'op_ge', 'op_eq', 'op_lt',
             'op_le', 'sensor_encoder', 'sensor_tachometer',
             'sensor_amperometer', 'stopped_at_first_checked'],
    rule='stop thresholds placed from a dry run of the same scenario (inside '
    'the range, on a recorded sample, between two samples, before, beyond), '
    'encoder/tachometer on any element or amperometer, five operators, fresh '
    'and continued runs; distinct = (chain kinds, schedule, fired faults, '
    'sensor, operator, placement); non-trivial = a run segment with a stop '
    'condition was judged')

REG['C17'] = dict(
    oracle='c17', profiles=[('tv', 3, None), ('dyn', 1, None)],
    quick=10000, thorough=250000,
    vacuity=['dumps_checked', 'after_run', 'after_reset', 'after_continuation',
             'prefix_checks',
             'F_STOP', 'exports', 'snapshots',
             'subset_WormWheel:m', 'subset_WormWheel:mb', 'subset_WormGear:',
             'subset_WormGear:d', 'subset_SpurGear:mbE', 'subset_SpurGear:mb',
             'subset_HelicalGear:m', 'subset_DCMotor:i0', 'subset_DCMotor:'],
    rule='chains with every subset of optional data per element kind, '
    'schedules of run / continue / early stop / reset / rerun followed by '
    'export and snapshot; distinct = (chain kinds, schedule, fired faults, '
    'set of (kind, data subset) simulated); non-trivial = at least one state '
    'dump checked variable by variable')
REG['C18'] = dict(
    oracle='c18', profiles=[('query', 4, None), ('dyn', 1, None)],
    quick=8000, thorough=200000,
    thorough_cfg={'exhaustive_subsets': True},
    vacuity=['snapshots', 'exports', 'snapshot_on_instant', 'snapshot_between',
             'snapshot_selected_vars', 'snapshot_default_vars',
             'snapshot_values', 'export_rows', 'F_IO',
             'export_raised_under_fault'],
    rule='simulated powertrains queried by snapshot (target on and between '
    'instants, any time unit, variable subsets, output units) and export '
    '(output units, seeded I/O faults: ENOSPC/EIO/EACCES at a byte of a file, '
    'at open, at makedirs, at close); distinct = (chain kinds, schedule, fired '
    'faults, (query, variable subset, fault kind)); non-trivial = a snapshot '
    'or an export was compared value by value',
    stubs=['external load function', 'ScriptedRule', 'RecordingRule',
           'fault-injecting proxy over builtins.open / os.makedirs around export (real scratch directory underneath)'])

REG['C13'] = dict(
    oracle='c13', profiles=[('lock', 4, None), ('dyn', 1, None)],
    quick=12000, thorough=300000,
    vacuity=['instants', 'held_instants', 'engage', 'release',
             'zero_duty_instants', 'duty_sign_changes', 'overload_instants',
             'non_self_locking_instants', 'F_RESET', 'continuations'],
    rule='self-locking worm drives (friction on both sides of cos(alpha)*tan('
    'beta)), loads up to 1000x stall of either sign, scripted duty histories '
    'with zeros and sign changes, plus non-self-locking chains under the same '
    'abuse; reference lock automaton per instant; distinct = (chain kinds, '
    'schedule, fired faults, (engaged, released, zero duty, sign change, '
    'overload, held count)); non-trivial = the lock held at least one instant '
    'or a non-self-locking chain was watched for clamping')

REG['C14'] = dict(
    oracle='c14', profiles=[('ctrl', 3, None), ('lock', 1, None),
                            ('dyn', 1, None)],
    quick=12000, thorough=300000,
    vacuity=['controlled_instants', 'uncontrolled_instants', 'conflicts',
             'F_CONFLICT', 'clipped', 'defaulted', 'applicable_1',
             'F_BOUNDARY_out_of_range_proposals', 'F_BOUNDARY_on_saturation'],
    rule='rule sets of 0..4 rules (four built-in kinds wrapped by a recorder, '
    'scripted rules with proposals far outside [-1,1], exactly +-1, one ulp '
    'beyond, seeded overlaps); the proposals every rule returned at every '
    'instant are recorded at the RuleBase seam and arbitrated by the model; '
    'distinct = (chain kinds, schedule, fired faults, rule kinds, conflict / '
    'clip / default seen); non-trivial = at least one controlled instant judged')

REG['C15'] = dict(
    oracle='c15', profiles=[('ctrl', 1, None)],
    quick=12000, thorough=300000,
    vacuity=['rule_calls', 'active_ConstantPWM', 'active_ReachAngularPosition',
             'active_StartProportional', 'active_StartLimitCurrent',
             'limit_current_instants', 'F_BOUNDARY_window_edge',
             'F_BOUNDARY_exact_edge'],
    rule='controlled simulations with the four built-in rules (parameters in '
    'any unit, encoder/tachometer on any chain element, timer edges on grid '
    'instants); the state each rule could see is captured when apply() runs '
    'and the documented window/value evaluated in SI; distinct = (chain '
    'kinds, schedule, fired faults, rule kinds, which rules became active); '
    'non-trivial = at least one built-in rule call judged')

REG['C08'] = dict(
    oracle='c08', profiles=[('motor', 3, None), ('ctrl', 1, None)],
    quick=12000, thorough=300000,
    vacuity=['law_instants', 'current_instants', 'dead_zone_instants',
             'F_BOUNDARY_dead_zone_edge', 'beyond_no_load_speed',
             'negative_speed', 'negative_duty', 'mirror_runs',
             'mirror_samples', 'probe_points', 'probe_relabelled'],
    rule='scripted duty schedules sweeping [-1,1], sitting on +-i0/imax and '
    'its floating-point neighbours, initial speeds beyond no-load speed, '
    'overloads; law checked at every recorded instant; plus an exact mirror '
    'run (initial state, duty history and load negated); distinct = (chain '
    'kinds, schedule, fired faults); non-trivial = at least one recorded '
    'instant compared with the documented law')

_DECL = ('declaration machine: a pool of elements of every kind, 1..30 '
         'declaration calls (valid, re-routing, and one injected rejection of '
         'every documented kind), public relation state dumped before and '
         'after every call, then Powertrain(motor), immutability probes and '
         'post-assembly re-declarations; ')
REG['C10'] = dict(
    oracle='c10', profiles=[('decl', 1, None)],
    quick=20000, thorough=2000000,
    vacuity=['decls_judged', 'accepted', 'rejected', 'rerouting',
             'accepted_joint', 'accepted_gear', 'accepted_worm',
             'self_locking_True', 'self_locking_False',
             'F_REJECT_self', 'F_REJECT_motor_slave', 'F_REJECT_eff_range',
             'F_REJECT_eff_type', 'F_REJECT_f_range', 'F_REJECT_f_type',
             'F_REJECT_module', 'F_REJECT_helix', 'F_REJECT_spur_helical',
             'F_REJECT_alpha', 'F_REJECT_worm_worm', 'F_REJECT_wheel_wheel',
             'F_REJECT_not_gear', 'F_REJECT_not_worm',
             'F_REJECT_worm_eff_range'],
    rule=_DECL + 'distinct = (element kinds, rejection kinds that occurred, '
    're-routing seen); non-trivial = at least one declaration judged by the '
    'declaration model',
    stubs=['none (declaration calls only)'])
REG['C20'] = dict(
    oracle='c20', profiles=[('decl', 5, None), ('lock', 1, None)],
    quick=20000, thorough=2000000,
    vacuity=['assemblies', 'motor_drives_nothing', 'duplicate_names_in_chain',
             'duplicate_names_outside_chain', 'self_locking_True',
             'self_locking_False', 'rerouted_before_assembly',
             'immutability_probes', 'redeclared_after_assembly',
             'resets_after_redeclaration',
             'chain_len_2', 'chain_len_5', 'chain_len_8'],
    rule=_DECL + 'distinct = (element kinds, chain length, duplicate-name '
    'case); non-trivial = an assembly was judged against the chain walk of '
    'the declaration model',
    stubs=['none (declaration calls only)'])

_H = {'house': True, 'mixed_time_units': False, 'differential': True}
# A is not always written in the units of the documentation: any pair of unit
# assignments (A, B) qualifies; here A draws its own units (and writes some
# magnitudes as whole numbers)
_H2 = {'mixed_time_units': False, 'differential': True}
REG['C07'] = dict(
    oracle='c07', profiles=[('dyn', 3, _H), ('ctrl', 2, _H), ('lock', 1, _H),
                            ('stop', 1, _H), ('query', 1, _H),
                            ('dyn', 1, _H2), ('ctrl', 1, _H2)],
    quick=8000, thorough=200000,
    vacuity=['builds_compared', 'compared_instants', 'snapshots_compared',
             'unit_Angle:rad', 'unit_Angle:arcsec', 'unit_Angle:rot',
             'unit_InertiaMoment:gcm^2', 'unit_Torque:kgfcm',
             'unit_TimeInterval:ms', 'unit_TimeInterval:hour',
             'unit_Current:uA', 'unit_Length:dm', 'unit_Stress:kPa',
             'unit_AngularSpeed:rph', 'unit_AngularPosition:arcmin',
             'unit_Time:min'],
    rule='differential simulation: scenario A in the house units of the docs '
    'against B, the same physical model with a seeded unit for every input '
    'quantity (component parameters, initial conditions, dt, T, timer '
    'start/duration, thresholds, rule targets/braking angles/limit currents, '
    'worm pressure and helix angles, load output unit); distinct = (chain '
    'kinds, schedule, fired faults, units drawn); non-trivial = two builds '
    'or two histories compared')

REG['C09'] = dict(
    oracle='c09', profiles=[('stress', 3, None), ('tv', 1, None)],
    quick=10000, thorough=250000,
    vacuity=['flag_checks', 'lewis_checks', 'force_samples', 'bending_samples',
             'contact_samples', 'role_MatingMaster', 'role_MatingSlave',
             'negative_reference_torque', 'F_MISSINGDATA_expected', 'later_phases',
             'F_MISSINGDATA', 'teeth_10-20', 'teeth_101-500', 'teeth_>500',
             'worm_alpha_14.5', 'worm_alpha_20', 'worm_alpha_25',
             'worm_alpha_30'],
    rule='simulated chains of spur / helical / worm stages with every subset '
    'of optional data, teeth 10..600 (beyond the table end), four worm '
    'pressure angles, both mating roles, torques of either sign; force, '
    'bending and contact stress of every gear at every recorded instant '
    'against the documented formulas (embedded copy of the tables); flags at '
    'assembly; F-MISSINGDATA must raise ValueError; distinct = (chain kinds, '
    'schedule, fired faults, teeth classes, worm angles, roles); non-trivial '
    '= at least one force sample or flag compared')

REG['C04'] = dict(
    oracle='c04', profiles=[('conv', 1, None)],
    quick=2500, thorough=40000,
    vacuity=['families', 'runs', 'ratios', 'split_runs', 'load_above_stall',
             'negative_duty'],
    thorough_cfg={'fine': True},
    rule='non-self-locking chains with constant load and constant duty cycle; '
    'for each a family of runs with k*dt in {0.2, 0.1, 0.05, 0.025} '
    '(thorough: down to 0.00625) over 3..6 time constants, optionally split '
    'into continuation segments, compared at every instant with the closed '
    'form of the linear drive; distinct = (chain kinds, horizon, split, duty '
    'via rule, current data, duty sign); non-trivial = a complete family was '
    'judged',
    stubs=['constant external load function', 'RecordingRule wrapper (when the duty is held by ConstantPWM)'])

REG['C19'] = dict(
    oracle='c19', profiles=[('quant', 1, None)],
    quick=100000, thorough=10000000,
    vacuity=['steps', 'op_new', 'op_add', 'op_sub', 'op_mul', 'op_div',
             'op_abs', 'op_neg', 'op_to', 'inplace_conversions',
             'raised_ValueError', 'raised_TypeError', 'F_BADPARAM',
             'bad_no_load_speed<=0', 'bad_teeth<minimum', 'bad_helix>=90deg',
             'bad_worm_helix>limit', 'bad_pwm_outside',
             'bad_no_load_current>=maximum'],
    digest_sample_every=0,
    rule='seeded straight-line programs (3..14 steps) of construct, + - * /, '
    'abs, neg, to, to(inplace) over all 13 kinds and units with operands of '
    'either sign, zero and magnitudes 1e-30..1e30, biased towards results '
    'that leave the valid range; every live object inspected after every '
    'step (also after steps that raised); plus 2..5 component constructions '
    'with one non-physical parameter each (must raise ValueError); distinct '
    '= (first ten operations, exception classes seen); non-trivial = at '
    'least one program step inspected',
    stubs=['none'])

NOT_APPLICABLE = [
    {'property_id': 'C05',
     'reason': 'stateless function of (value, from-unit, to-unit): no schedule, clock, fault, I/O or history for a simulator to act on; its quantifier is decided by exhaustive enumeration of unit pairs, a different technique (DESIGN.md section 6)'},
    {'property_id': 'C06',
     'reason': 'stateless function of two operands and an operator: deciding it means enumerating the kind x kind x operator table, not simulating anything (DESIGN.md section 6)'},
]

_SIM = 'deterministic simulation (seeded scenario = configuration + operation schedule + fault plan, executed on the real code, minimised replay): '
TECHNIQUE = {
    '*': _SIM + 'per-instant invariants on the recorded history against an SI reference model',
    'C01': _SIM + 'per-instant ratio invariant on every adjacent pair of the recorded histories; ratios from the declaration model',
    'C02': _SIM + 'recording stub on the load callback + per-instant torque-chain invariants (motor law, efficiency/ratio propagation, net torque)',
    'C03': _SIM + 'per-instant equation of motion and two-instant update law, with the reference lock automaton deciding the clamp clause',
    'C04': _SIM + 'family of simulated runs with geometrically shrinking step compared with the closed-form solution (error bound proportional to dt, error ratio ~2)',
    'C07': _SIM + 'differential simulation of the same physical scenario under two unit assignments; divergences explained only by near-threshold decisions or measured ill-conditioning',
    'C08': _SIM + 'documented motor law at every recorded (speed, duty) with dead-zone boundary injection, plus an exact mirror-run differential',
    'C09': _SIM + 'documented force/Lewis/Hertz formulas (embedded tables) at every recorded instant, computable flags at assembly, missing-mate-data fault must raise',
    'C10': _SIM + 'model-based checking of declaration histories, operation by operation, with injected invalid calls and before/after state dumps',
    'C11': _SIM + 'exact-decimal grid model of the time axis over run / continue / stop schedules in four time units',
    'C12': _SIM + 'differential simulation of two schedules of the same model (split vs single run; reset + rerun with same/new Solver)',
    'C13': _SIM + 'reference lock automaton (engage / release / held) run beside the recorded history; overload, zero-duty and sign-change duty schedules injected through the RuleBase seam',
    'C14': _SIM + 'all rule proposals recorded at the RuleBase seam and arbitrated by the model; conflicts, out-of-range and boundary proposals injected',
    'C15': _SIM + 'state seen by each built-in rule captured when apply() runs; documented window/value evaluated in SI; exact decisions on timer edges placed on grid instants',
    'C16': _SIM + 'stop thresholds placed from a dry run (inside, on a sample, between samples, before, beyond); first-occurrence oracle on the recorded sensed series',
    'C17': _SIM + 'after every schedule operation every advertised series is checked (length, kind, last == live, append-only); export and snapshot must succeed; optional-data subsets swarmed',
    'C18': _SIM + 'snapshot/export compared value by value with the recorded history through independent unit tables; I/O faults (ENOSPC/EIO/EACCES at byte/open/makedirs/close) injected around export',
    'C19': _SIM + 'seeded straight-line programs of quantity operations with every live object inspected after every step, plus component constructions with one non-physical parameter',
    'C20': _SIM + 'declaration histories (re-routing, duplicate names) followed by assembly; chain walk of the public drives links; immutability probes and post-assembly re-declarations',
}
_T = ('seeded search over simulated operation histories of the real code; '
      'every recorded instant / operation is checked against an independent '
      'SI reference model; violations are minimised and replayable; a clean '
      'batch is evidence, not proof. Sensitivity shown by the mutation '
      'catalogue (all caught) and independent seeded changes (DESIGN 8, 12)')
LEVEL_TEXT = {p: _T for p in ['C%02d' % i for i in range(1, 21)]}
LEVEL_TEXT['C04'] = _T + '. Borderline for this family: no fault dimension, the simulator contributes an analytic trajectory oracle over families of runs'
LEVEL_TEXT['C08'] = _T + '. Partial: the (speed, duty) continuum is covered where trajectories and boundary injection visit it'
LEVEL_TEXT['C09'] = _T + '. Partial: parameter space covered by the swarm (teeth 10..600, four worm angles, data subsets); the WormGear own force is not judged (doc/code differ)'
LEVEL_TEXT['C19'] = _T + '. Borderline for this family: operation-sequence exploration with failing operations as the only fault'
LEVEL_NOTE = {
    '*': 'trusted: the reference model in gpsim/refmodel.py (written from the documentation), the simulator own unit tables (gpsim/si.py), IEEE-754 arithmetic; discrete decisions within 1e-9 relative (plus gearpy own 1e-12 comparison band) of their threshold are counted as undecided, never as violations; differential checks discard scenarios whose own dynamics amplify a 1e-13 perturbation beyond 1% of the tolerance',
}
DESIGN_REF = {}
