import sys, json, faulthandler, traceback
faulthandler.dump_traceback_later(40, exit=True)
from gpsim import gen, execu
execu.gp()
profile=sys.argv[1]; seed=int(sys.argv[2])
scn=gen.gen(seed,profile)
import gearpy.solver as S
orig=S.Solver.run
def run(self,*a,**k):
    try: return orig(self,*a,**k)
    except Exception: traceback.print_exc(); raise
S.Solver.run=run
H=execu.execute(scn)
if len(sys.argv)>3: print(json.dumps(scn,indent=1))
for op in H['ops']: print(op['op'],op['exc'],op['n_before'],op['n_after'])
