import sys, time, json, faulthandler, collections
faulthandler.dump_traceback_later(40, exit=True)
from gpsim import gen, execu
execu.gp()
profile = sys.argv[1]; lo=int(sys.argv[2]); hi=int(sys.argv[3])
c=collections.Counter(); ninst=0
t=time.time()
for seed in range(lo,hi):
    t0=time.time()
    scn=gen.gen(seed,profile)
    H=execu.execute(scn)
    if time.time()-t0>2: print('slow',seed,time.time()-t0)
    bad=[b for b in H['build'] if b['exc']]
    if bad: c['buildexc']+=1; print(seed,bad[:2])
    for op in H['ops']:
        c[op['op']]+=1
        if op['exc']: c['exc:'+op['exc'][0]+' '+op['exc'][1][:50]]+=1
    ninst+=sum(op['n_after']-op['n_before'] for op in H['ops'] if op['op']=='run')
print(time.time()-t, ninst)
for k,v in sorted(c.items()): print(v,k)
