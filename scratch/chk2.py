import sys, time, json, faulthandler, collections, importlib
faulthandler.dump_traceback_later(200, exit=True)
from gpsim import gen, execu
execu.gp()
profile = sys.argv[1]; props=sys.argv[2].split(','); lo=int(sys.argv[3]); hi=int(sys.argv[4]); cfg=json.loads(sys.argv[5]) if len(sys.argv)>5 else None
mods=[importlib.import_module('gpsim.oracles.'+p.lower()) for p in props]
tot=collections.Counter(); sigs=collections.Counter(); ex={}
t=time.time()
from gpsim.check import run_scenario
from gpsim.props import REG
for seed in range(lo,hi):
    scn=gen.gen(seed,profile,cfg)
    for m in mods:
        H,vs,st=run_scenario(REG[m.PROP],scn)
        for k,x in st.items(): tot[m.PROP+':'+k]+=x
        for v in vs:
            sigs[v.sig]+=1; ex.setdefault(v.sig,(seed,v.detail))
print(time.time()-t)
for k,v in sorted(tot.items()): print(v,k)
print('--- violations')
for k,v in sorted(sigs.items()): print(v,k,ex[k])
